package retriever

// Bounded stand-in for C19 (labelled bounded, never counted as proved): crash / error interruption of Dump and
// resume, against the REAL retriever.Dump, over an in-memory fake graph.Database. Must be run with the build
// tag `verif` (VERIF_TAGS=verif): the package then exposes VerifCrashHook, which the real code calls between
// the file-system steps of Dump.
//
// WHAT IS ENUMERATED (VERIF_BOUND):
//   "1": databases {1 graph with 3 nodes + 2 edges; 1 empty graph; 1 graph with a single node}
//        x shard size {1,2} x batch size {1,2} x codec none (scrub none), plus one scrub=full configuration
//        (shard 2, batch 2) of the 3+2 database;
//   "2": databases {2 graphs: 4 nodes + 3 edges and 3 nodes + 2 edges; the three databases of bound 1}
//        x shard size {1,2,3} x batch size {1,2} x codec {none, gzip}, plus scrub=full configurations.
//   For every configuration and for BOTH crash models (see below):
//   1. reference: one uninterrupted Dump into a fresh directory (N hook invocations, R database reads);
//   2. first interruption f1 = a crash at the k-th hook invocation, for EVERY k in 1..N, or (part 4) an
//      injected database read error at the n-th read for EVERY n in 1..R (a read = one Count() or one Fetch();
//      a failing Fetch either fails before delivering anything or delivers one record and then reports a
//      cursor error);
//   3. from the directory state left by f1: Dump with Resume=true, same options, unchanged source, without
//      any further fault; and with a SECOND interruption f2 (crash at the j-th hook invocation of the resumed
//      run / read error at the m-th read of the resumed run; bound "1": j,m in {1,2,3,last}, bound "2": all)
//      followed by a third, fault free, resume;
//   4. from the directory state left by f1: resumes that must be refused - one changed option each
//      (ShardSize, BatchSize, Compression, ZstdLevel, scrub mode, salt, driver name, target list), a changed
//      source (per graph: a node added, an edge removed, a node replaced keeping the counts), and an extra
//      file in the directory (fragment-like, fragment-like *.tmp of a later shard, unrelated file in the root,
//      unrelated file in the graph directory).
//   VERIF_SEED only permutes the order of jobs and of first interruptions; results are order independent.
//   "cases" counts calls of the real Dump; "sequences" counts interruption sequences (f1) and (f1,f2).
//   EXECUTION: the hook is a package global, so one process runs one Dump at a time; the enumeration is cut
//   into jobs (configuration x crash model x slice of the first interruptions) and every job runs in a child
//   process (this test binary re-executed with VERIF_C19_JOB=<n>); if a child cannot be started the job runs
//   in-process ("jobs_run_in_process"). Scratch directories live under /dev/shm when it exists.
//
// CRASH MODELS. A crash is simulated by panicking with a private sentinel from the hook and recovering it in
// the harness around Dump. "unwind": the directory is used as left after the panic unwound through Dump (its
// deferred functions have run, which a real crash would not do). "strict": the hook copies the directory tree
// to a scratch directory BEFORE panicking and the harness restores that copy afterwards, so the state is the
// one at the crash point. ASSUMPTION (both models): everything the process handed to the operating system
// before the crash point is on disk, i.e. unflushed OS buffers / missing fsync are NOT modelled; data still
// buffered inside the process (e.g. in the gzip writer) is lost, as in a real crash.
//
// ORACLE (taken from the property statement, not from the code):
//   - immediately after every interruption: manifest.json does not exist;
//   - a resume that returns nil: manifest.json reads and validates; the directory holds exactly manifest.json
//     and the fragments it lists (no checkpoint, no *.tmp, no orphan); every listed fragment has the recorded
//     size and sha256 (computed here); verifyCollectionFragments passes; the multiset of node records and of
//     edge records decoded from the fragments equals that of the uninterrupted reference dump (every entity
//     exactly once) and, without scrubbing, equals the records derived here directly from the fake database;
//     manifest counts equal the decoded counts; schema, metrics and scrub summaries equal the reference;
//   - a resume that returns an error ("refused"): no manifest exists afterwards and every fragment listed in
//     the checkpoint as it was before the attempt is still present with its recorded sha256 (also checked
//     after a crash during a resume);
//   - the resumes of item 4 must return an error, must not create a manifest, must not damage fragments.
//
// EXTENSION (second round, three more input classes; everything above is kept):
//   5. UNACCOUNTED ENTRIES WITH UNUSUAL NAMES at resume time, from EVERY interrupted state, one entry per resume, in
//      the root, in graphs/ and in the directory of the first and of the last graph: a dot file (".hidden"), an
//      editor swap file (".nodes-000002.jsonl.swp"), a name that differs from a real fragment only in case
//      ("NODES-000001.jsonl") or only in extension (".bak" appended; the extension of the other codec), a zero-length
//      file, a zero-length file named like a later fragment, an empty directory, an empty directory named like a later
//      fragment, a symbolic link named like a later fragment that points to a committed fragment (to the checkpoint
//      if nothing is committed yet), a symbolic link to a directory; and, derived from the checkpoint as read by the
//      harness: an empty directory / a symbolic link at the path of the NEXT fragment of the running phase, a temp
//      file of the other phase, of the shard after the next, and the two root temp names one level down.
//      ORACLE: the resume must return an error (classes "unaccounted-entry-accepted:<kind>"); if it returns nil the
//      entry must not exist any more ("unaccounted-entry-survives:<kind>") and, the entry put aside, the directory
//      must be a complete dump equivalent to the reference. After a refusal: no manifest, committed fragments intact.
//      The ONLY tolerated extras are the three temp names dump_checkpoint.go documents
//      (removeKnownDumpCheckpointTemps): <root>/.retriever-checkpoint.json.tmp, <root>/manifest.json.tmp and
//      <path of the next fragment of the current graph's current phase>.tmp. They are planted too (holding garbage, as
//      a symbolic link to a committed fragment, as an empty directory): either outcome is allowed, the general resume
//      oracle applies (nil => complete dump with NOTHING else in the directory; error => fragments intact).
//   6. DERIVED METADATA: configurations with Scrub=full over graphs whose node AND edge properties are scrubbed with
//      all four actions in amounts that differ from record to record, 3 nodes + 3 edges, shard size 1 (3 fragments
//      per phase, so crashes after 2 committed fragments of a phase are among the enumerated ones). For EVERY resume
//      that returns nil (all configurations, not only these) manifest.json is decoded generically and compared with
//      the manifest of the uninterrupted reference field by field (only $.generated_at is ignored); the failure names
//      the differing JSON path. The Manifest value returned by Dump must equal the file as well.
//   7. MULTI-GRAPH dumps already at bound "1": two plain graphs and two scrubbed graphs, so the interruptions between
//      the graphs and inside the second graph (and all of 4.-6. from those states) are enumerated at both bounds.
//   The complete-dump check now also lists directories and symbolic links: besides manifest.json only the listed
//   fragments (regular files) and the directories leading to them may exist.
//
// THIRD EXTENSION (three fault models more; everything above is kept):
//   8. CANCELLATION instead of a crash: fault kind "cancel@hook#k" - at the k-th hook invocation the hook calls the
//      cancel function of the context Dump was given and RETURNS (no panic); Dump then returns by itself, with an error
//      or with nil. Enumerated like crashes: as first interruption for EVERY k of the uninterrupted run, as second
//      interruption at {1,2,3,last} (bound "2": every) hook invocation of the resumed run; all of 4.-6. run from the
//      states a cancelled dump leaves, too. The fake database honours the context the way a driver does (no new
//      transaction once it is done, an open cursor stops delivering), so the real code's own checks and the driver
//      path are both exercised; the state a cancelled run leaves is deterministic. A cancellation does not depend on
//      the crash model: like read errors it is checked in the unwind jobs (the strict jobs only add (cancel, crash)).
//      ORACLE: Dump returned nil => the directory is a complete dump equivalent to the reference. Dump returned an
//      error => no manifest (same refinement as for crashes at the two post-commit points), and - checked now after
//      EVERY kind of interruption - every fragment the checkpoint on disk lists exists with the recorded size and
//      sha256 right after the run returned. Nothing but the cancellation happened, so the fault free resume must
//      COMPLETE with a dump equivalent to the reference: a refusal is a violation (class
//      "resume-refused-after-cancellation@<hook point>"); the same after a cancelled resume whenever the fault free
//      resume from the same state completes.
//   9. DAMAGE TO COMMITTED FRAGMENTS, length kept: one extra job per configuration (mode "damage", strict crash
//      model). Crash at every hook invocation k; the first k reaching each distinct committed state (graphs completed,
//      graph and phase in progress, list of committed fragments - read by the harness from the checkpoint) is used,
//      which includes: after the first committed node fragment, after the node phase, inside the edge phase, after the
//      first graph of a two-graph dump, inside the second graph. From each state, for EVERY committed fragment
//      (fragments of graphs already complete included) x {first, middle, last byte xor 0x01; whole file zero-filled},
//      one resume with the original options and the unchanged source.
//      ORACLE: the resume returns an error (then: no manifest, the OTHER committed fragments intact), or it returns
//      nil and the directory passes the complete-dump check (every manifest checksum equals the sha256 of the file on
//      disk computed here, data equal to the reference). Anything else: class "damaged-fragment-accepted:<where>".
//  10. IDENTITY-RELEVANT OPTIONS: the fields of dumpCheckpointIdentity are enumerated by reflection. Option side: for
//      every field one must-refuse resume (from every interrupted state) with only the option behind it changed
//      (table vcOptionSideFields); new here is the scrub rules file CONTENT with the same mode and salt: no file
//      (built-in defaults) / "name" preserved instead of pseudonymised / another redaction marker / another timestamp
//      shift, in every scrub configuration, plus one configuration whose interrupted dump itself uses a rules file
//      (resumes with a fresh reader over the same content must complete - the general resume oracle). Recorded side:
//      for EVERY field, the value recorded in the checkpoint file is changed (generic JSON edit) and the resume runs
//      with the original options - this is the only way to vary ScrubRulesVersion, a constant of the binary. The parent
//      process fails if a field of the identity has no variation (a field added later) or if one was never run.
//      ORACLE: each of these resumes must return an error (classes "options-differ-accepted:scrub-rules-content",
//      "options-differ-accepted:recorded-<json key>"); after the refusal: no manifest, committed fragments intact.
//      Harness sanity: an uninterrupted dump under the "name preserved" rules must differ from the reference.

import (
	"context"
	"crypto/sha256"
	"encoding/hex"
	"encoding/json"
	"errors"
	"fmt"
	"io"
	"io/fs"
	"log/slog"
	"math/rand"
	"os"
	"os/exec"
	"path/filepath"
	"reflect"
	"regexp"
	"runtime"
	"sort"
	"strconv"
	"strings"
	"sync"
	"sync/atomic"
	"testing"
	"time"

	cypherModel "github.com/specterops/dawgs/cypher/models/cypher"
	"github.com/specterops/dawgs/graph"
)

// knownDeviations lists classes of inputs for which the UNCHANGED tree violates the literal oracle above.
// The check stays in place: a violation whose class is listed here is counted under "known_deviation_hits"
// instead of "failures" (and a weaker, still meaningful check is applied where one exists); every other
// input is checked in full. See the per-class comments.
var knownDeviations = vcKnownFromEnv()

// vcKnownFromEnv: the deviation classes come from /verif/known_findings.json through VERIF_KNOWN ("|"-separated
// class names); nothing is suppressed that the committed findings file does not list. The classes a child
// process sees are the same (the environment is inherited).
func vcKnownFromEnv() []string {
	var out []string
	for _, p := range strings.Split(os.Getenv("VERIF_KNOWN"), "|") {
		if p = strings.TrimSpace(p); p != "" {
			out = append(out, p)
		}
	}
	return out
}

const vcCallTimeout = 120 * time.Second

// ---------------------------------------------------------------- fake database

type vcNodeSpec struct {
	id    uint64
	kinds []string
	props map[string]any
}

type vcEdgeSpec struct {
	id, start, end uint64
	kind           string
	props          map[string]any
}

type vcGraphData struct {
	nodes []vcNodeSpec // ascending id
	edges []vcEdgeSpec // ascending id
}

type vcData struct {
	name   string
	order  []string // graph names = dump targets, in order
	graphs map[string]*vcGraphData
}

func vcMakeGraph(nodes, edges int) *vcGraphData {
	g := &vcGraphData{}
	for i := 0; i < nodes; i++ {
		kinds := []string{"KA"}
		if i%2 == 1 {
			kinds = []string{"KB", "KA"} // deliberately unsorted
		}
		g.nodes = append(g.nodes, vcNodeSpec{id: uint64(3 + 4*i), kinds: kinds, props: map[string]any{"name": fmt.Sprintf("n%d", i), "rank": i}})
	}
	for i := 0; i < edges; i++ {
		g.edges = append(g.edges, vcEdgeSpec{id: uint64(2 + 5*i), start: uint64(3 + 4*i), end: uint64(3 + 4*(i+1)), kind: fmt.Sprintf("E%d", 1+i%2), props: map[string]any{"w": i}})
	}
	return g
}

// vcMakeRichGraph: every node and every edge carries properties of all four scrub actions of the default rules
// (pseudonymize: name/email/label/objectid, preserve: rank/w, redact: description/note, shift_timestamp:
// whencreated/updated) in amounts that differ from record to record, so per-fragment action counts differ between the
// fragments of a phase. Edges wrap around (edge i: node i -> node i+1 mod n), so edges may equal nodes in number.
func vcMakeRichGraph(nodes, edges, salt int) *vcGraphData {
	g := &vcGraphData{}
	for i := 0; i < nodes; i++ {
		kinds := []string{"KA"}
		if i%2 == 1 {
			kinds = []string{"KB", "KA"}
		}
		props := map[string]any{"name": fmt.Sprintf("user%d-%d", salt, i), "rank": i + salt}
		switch (i + salt) % 3 {
		case 0:
			props["description"] = fmt.Sprintf("free text %d", i)
		case 1:
			props["whencreated"] = 1700000000 + i
			props["description"] = "more text"
			props["comment"] = "c"
		case 2:
			props["email"] = fmt.Sprintf("u%d@corp%d.local", i, salt)
			props["objectid"] = fmt.Sprintf("S-1-5-21-1-2-3-%d", 1000+i)
		}
		g.nodes = append(g.nodes, vcNodeSpec{id: uint64(3 + 4*i), kinds: kinds, props: props})
	}
	for i := 0; i < edges; i++ {
		props := map[string]any{"w": i}
		switch (i + salt) % 3 {
		case 0:
			props["note"] = "seen on path"
			props["label"] = fmt.Sprintf("host%d.corp.example.com", i)
		case 1:
			props["updated"] = "2024-01-02T03:04:05Z"
		case 2:
			props["label"] = fmt.Sprintf("edge label %d", i)
			props["updated"] = 1700000000 + i
			props["note"] = "n"
			props["notes2"] = "m"
		}
		g.edges = append(g.edges, vcEdgeSpec{id: uint64(2 + 5*i), start: uint64(3 + 4*(i%nodes)), end: uint64(3 + 4*((i+1)%nodes)), kind: fmt.Sprintf("E%d", 1+i%2), props: props})
	}
	return g
}

func (d *vcData) clone(name string) *vcData {
	out := &vcData{name: name, order: append([]string(nil), d.order...), graphs: map[string]*vcGraphData{}}
	for k, g := range d.graphs {
		out.graphs[k] = &vcGraphData{nodes: append([]vcNodeSpec(nil), g.nodes...), edges: append([]vcEdgeSpec(nil), g.edges...)}
	}
	return out
}

var errVcInjected = errors.New("verif injected database read error")

type vcDB struct {
	graph.Database
	data     *vcData
	ops      []string
	failAt   int
	failMode int // 0: fail before delivering anything, 1: (Fetch) deliver one record, then cursor error
}

func (s *vcDB) op(kind string) bool {
	s.ops = append(s.ops, kind)
	return s.failAt > 0 && len(s.ops) == s.failAt
}

// ReadTransaction honours the context the way a database driver does (third extension, item 8): once the context is
// done no transaction is opened and the context's error is returned; a cursor that is still open stops delivering
// (see vcCursor.Chan). With a live context nothing changes.
func (s *vcDB) ReadTransaction(ctx context.Context, delegate graph.TransactionDelegate, _ ...graph.TransactionOption) error {
	if ctx != nil {
		if err := ctx.Err(); err != nil {
			return err
		}
	}
	return delegate(&vcTx{db: s, g: &vcGraphData{}, ctx: ctx})
}

type vcTx struct {
	graph.Transaction
	db  *vcDB
	g   *vcGraphData
	ctx context.Context
}

func (s *vcTx) WithGraph(target graph.Graph) graph.Transaction {
	g := s.db.data.graphs[target.Name]
	if g == nil {
		g = &vcGraphData{}
	}
	return &vcTx{db: s.db, g: g, ctx: s.ctx}
}
func (s *vcTx) Nodes() graph.NodeQuery                 { return &vcNodeQuery{tx: s} }
func (s *vcTx) Relationships() graph.RelationshipQuery { return &vcRelQuery{tx: s} }

type vcCursor[T any] struct {
	ch  chan T
	err error
	ctx context.Context
}

func vcNewCursor[T any](ctx context.Context, values []T, err error) *vcCursor[T] {
	ch := make(chan T, len(values))
	for _, v := range values {
		ch <- v
	}
	close(ch)
	return &vcCursor[T]{ch: ch, err: err, ctx: ctx}
}
func (s *vcCursor[T]) Error() error { return s.err }
func (s *vcCursor[T]) Close()       {}

// Chan: after the transaction's context is done the cursor delivers nothing more (a nil channel never becomes ready),
// so a reader that selects on ctx.Done() and on this channel takes the ctx.Done() branch - deterministically, which
// keeps the state a cancelled Dump leaves (and with it the case counts) the same from run to run.
func (s *vcCursor[T]) Chan() chan T {
	if s.ctx != nil && s.ctx.Err() != nil {
		return nil
	}
	return s.ch
}

func vcAfterID(criteria graph.Criteria) (graph.ID, bool) {
	comparison, ok := criteria.(*cypherModel.Comparison)
	if !ok || len(comparison.Partials) == 0 {
		return 0, false
	}
	parameter, ok := comparison.Partials[0].Right.(*cypherModel.Parameter)
	if !ok {
		return 0, false
	}
	id, ok := parameter.Value.(graph.ID)
	return id, ok
}

type vcNodeQuery struct {
	graph.NodeQuery
	tx       *vcTx
	after    graph.ID
	hasAfter bool
	bad      bool
	limit    int
}

func (s *vcNodeQuery) Filter(criteria graph.Criteria) graph.NodeQuery {
	id, ok := vcAfterID(criteria)
	s.after, s.hasAfter, s.bad = id, ok, !ok
	return s
}
func (s *vcNodeQuery) OrderBy(...graph.Criteria) graph.NodeQuery { return s }
func (s *vcNodeQuery) Limit(limit int) graph.NodeQuery           { s.limit = limit; return s }
func (s *vcNodeQuery) Count() (int64, error) {
	if s.tx.db.op("count-nodes") {
		return 0, errVcInjected
	}
	return int64(len(s.tx.g.nodes)), nil
}
func (s *vcNodeQuery) Fetch(delegate func(graph.Cursor[*graph.Node]) error, _ ...graph.Criteria) error {
	fail := s.tx.db.op("fetch-nodes")
	if fail && s.tx.db.failMode == 0 {
		return errVcInjected
	}
	if s.bad {
		return errors.New("verif harness: cannot interpret node filter criteria")
	}
	var values []*graph.Node
	for _, n := range s.tx.g.nodes {
		if (!s.hasAfter || graph.ID(n.id) > s.after) && (s.limit <= 0 || len(values) < s.limit) {
			kinds := make(graph.Kinds, 0, len(n.kinds))
			for _, k := range n.kinds {
				kinds = append(kinds, graph.StringKind(k))
			}
			props := map[string]any{}
			for k, v := range n.props {
				props[k] = v
			}
			values = append(values, graph.NewNode(graph.ID(n.id), graph.AsProperties(props), kinds...))
		}
	}
	var cursorErr error
	if fail {
		cursorErr = errVcInjected
		if len(values) > 1 {
			values = values[:1]
		}
	}
	return delegate(vcNewCursor(s.tx.ctx, values, cursorErr))
}

type vcRelQuery struct {
	graph.RelationshipQuery
	tx       *vcTx
	after    graph.ID
	hasAfter bool
	bad      bool
	limit    int
}

func (s *vcRelQuery) Filter(criteria graph.Criteria) graph.RelationshipQuery {
	id, ok := vcAfterID(criteria)
	s.after, s.hasAfter, s.bad = id, ok, !ok
	return s
}
func (s *vcRelQuery) OrderBy(...graph.Criteria) graph.RelationshipQuery { return s }
func (s *vcRelQuery) Limit(limit int) graph.RelationshipQuery           { s.limit = limit; return s }
func (s *vcRelQuery) Count() (int64, error) {
	if s.tx.db.op("count-edges") {
		return 0, errVcInjected
	}
	return int64(len(s.tx.g.edges)), nil
}
func (s *vcRelQuery) Fetch(delegate func(graph.Cursor[*graph.Relationship]) error) error {
	fail := s.tx.db.op("fetch-edges")
	if fail && s.tx.db.failMode == 0 {
		return errVcInjected
	}
	if s.bad {
		return errors.New("verif harness: cannot interpret relationship filter criteria")
	}
	var values []*graph.Relationship
	for _, e := range s.tx.g.edges {
		if (!s.hasAfter || graph.ID(e.id) > s.after) && (s.limit <= 0 || len(values) < s.limit) {
			props := map[string]any{}
			for k, v := range e.props {
				props[k] = v
			}
			values = append(values, graph.NewRelationship(graph.ID(e.id), graph.ID(e.start), graph.ID(e.end), graph.AsProperties(props), graph.StringKind(e.kind)))
		}
	}
	var cursorErr error
	if fail {
		cursorErr = errVcInjected
		if len(values) > 1 {
			values = values[:1]
		}
	}
	return delegate(vcNewCursor(s.tx.ctx, values, cursorErr))
}

// ---------------------------------------------------------------- crash hook, one Dump call

type vcCrashSentinel struct {
	point string
	index int
}

type vcRunState struct {
	dir, snap string
	crashAt   int
	strict    bool
	hooks     []string
	snapErr   error
	// cancellation instead of a crash (item 8): at the cancelAt-th hook invocation the hook calls cancel - the cancel
	// function of the context Dump was given - and RETURNS, so Dump goes on until it notices (or does not notice)
	cancelAt    int
	cancel      context.CancelFunc
	cancelPoint string
}

// The hook is a package global: within one process Dump calls are made strictly one after the other and the
// state of the call in progress is published here. Parallelism comes from running jobs in child processes
// (the test binary re-executes itself, see TestVerifBoundedCrashResume).
var vcCurrent atomic.Pointer[vcRunState]

func vcHook(point string) {
	st := vcCurrent.Load()
	if st == nil {
		return
	}
	st.hooks = append(st.hooks, point)
	if st.crashAt > 0 && len(st.hooks) == st.crashAt {
		if st.strict {
			st.snapErr = vcCopyTree(st.dir, st.snap)
		}
		panic(vcCrashSentinel{point: point, index: st.crashAt})
	}
	if st.cancelAt > 0 && len(st.hooks) == st.cancelAt && st.cancel != nil {
		st.cancelPoint = point
		st.cancel()
	}
}

func vcCopyTree(src, dst string) error {
	if err := os.RemoveAll(dst); err != nil {
		return err
	}
	return filepath.WalkDir(src, func(p string, entry fs.DirEntry, err error) error {
		if err != nil {
			return err
		}
		rel, err := filepath.Rel(src, p)
		if err != nil {
			return err
		}
		target := filepath.Join(dst, rel)
		if entry.IsDir() {
			return os.MkdirAll(target, 0o755)
		}
		content, err := os.ReadFile(p)
		if err != nil {
			return err
		}
		return os.WriteFile(target, content, 0o600)
	})
}

const (
	vcFaultNone      = 0
	vcFaultCrash     = 1
	vcFaultReadError = 2 // read fails before delivering anything
	vcFaultCursor    = 3 // Fetch delivers one record, then the cursor reports an error
	vcFaultCancel    = 4 // the context handed to Dump is cancelled at the at-th hook invocation; Dump returns by itself
)

type vcFault struct {
	kind int
	at   int
	what string // hook point / read kind, for messages only
}

func (f vcFault) String() string {
	switch f.kind {
	case vcFaultCrash:
		return fmt.Sprintf("crash@hook#%d(%s)", f.at, f.what)
	case vcFaultReadError:
		return fmt.Sprintf("readerror@read#%d(%s)", f.at, f.what)
	case vcFaultCursor:
		return fmt.Sprintf("cursorerror@read#%d(%s)", f.at, f.what)
	case vcFaultCancel:
		return fmt.Sprintf("cancel@hook#%d(%s)", f.at, f.what)
	}
	return "nofault"
}

type vcOutcome struct {
	err        error
	crashed    bool
	crashPoint string
	cancelled  bool // the cancel position was reached (crashPoint = the hook point at which the context was cancelled)
	harnessErr string
	hung       bool
	hooks      []string
	ops        []string
	res        DumpResult
}

func vcRunDump(dir string, data *vcData, driver string, targets []GraphTarget, opts DumpOptions, fault vcFault, strict bool) vcOutcome {
	opts.OutputDir = dir
	db := &vcDB{data: data}
	if fault.kind == vcFaultReadError || fault.kind == vcFaultCursor {
		db.failAt, db.failMode = fault.at, fault.kind-vcFaultReadError
	}
	st := &vcRunState{dir: dir, snap: dir + ".snap", strict: strict}
	if fault.kind == vcFaultCrash {
		st.crashAt = fault.at
	}
	ctx, cancel := context.WithTimeout(context.Background(), vcCallTimeout)
	defer cancel()
	if fault.kind == vcFaultCancel {
		st.cancelAt, st.cancel = fault.at, cancel
	}
	done := make(chan vcOutcome, 1)
	vcCurrent.Store(st)
	go func() {
		var out vcOutcome
		defer func() {
			if r := recover(); r != nil {
				if c, ok := r.(vcCrashSentinel); ok {
					out.crashed, out.crashPoint = true, c.point
				} else {
					out.harnessErr = fmt.Sprintf("Dump panicked: %v", r)
				}
			}
			out.hooks, out.ops = st.hooks, db.ops
			if st.cancelPoint != "" && !out.crashed {
				out.cancelled, out.crashPoint = true, st.cancelPoint
			}
			done <- out
		}()
		out.res, out.err = Dump(ctx, db, driver, targets, opts)
	}()
	var out vcOutcome
	select {
	case out = <-done:
		vcCurrent.Store(nil)
	case <-time.After(vcCallTimeout + 10*time.Second):
		vcCurrent.Store(nil)
		return vcOutcome{hung: true, harnessErr: "Dump did not return within " + vcCallTimeout.String() + " (hang)"}
	}
	if out.crashed && strict {
		if st.snapErr != nil {
			out.harnessErr = "snapshot at crash point failed: " + st.snapErr.Error()
		} else if err := os.RemoveAll(dir); err != nil {
			out.harnessErr = "restore snapshot: " + err.Error()
		} else if err := os.Rename(st.snap, dir); err != nil {
			out.harnessErr = "restore snapshot: " + err.Error()
		}
	}
	return out
}

// ---------------------------------------------------------------- configurations

type vcConfig struct {
	data  *vcData
	shard int
	batch int
	codec CompressionCodec
	scrub bool
	rules string // scrub rules file content handed to Dump as DumpOptions.ScrubConfig ("" = none given: built-in defaults)
	mode  string // "" = the full enumeration; "damage" = item 9 only (see runDamage)
}

const vcDriver = "verif-fake"

// scrub rules files (item 10). Each differs from the built-in defaults in one setting. vcRulesPreserveName turns the
// pseudonymised property "name" (every node of every harness graph has one) into a preserved one.
const (
	vcRulesPreserveName = "[classifier]\npreserve_keys = [\"objectid\", \"domainsid\", \"kind\", \"name\"]\n"
	vcRulesMarker       = "[scrub]\nredaction_marker = \"[GONE]\"\n"
	vcRulesShift        = "[scrub]\ntimestamp_shift_days = 30\n"
)

// options: DumpOptions.ScrubConfig is an io.Reader that one Dump call consumes, so every call of options() hands out
// a fresh reader over the same content.
func (c vcConfig) options() DumpOptions {
	o := DefaultDumpOptions("")
	o.Compression, o.ShardSize, o.BatchSize = c.codec, c.shard, c.batch
	if c.scrub {
		o.Scrub, o.Salt = ScrubFull, "verif-salt"
		if c.rules != "" {
			o.ScrubConfig = strings.NewReader(c.rules)
		}
	}
	return o
}

func vcTargets(d *vcData) []GraphTarget {
	var out []GraphTarget
	for _, name := range d.order {
		out = append(out, GraphTarget{Name: name})
	}
	return out
}

func (c vcConfig) String() string {
	text := fmt.Sprintf("db=%s shard=%d batch=%d codec=%s scrub=%v", c.data.name, c.shard, c.batch, c.codec, c.scrub)
	if c.rules != "" {
		text += fmt.Sprintf(" rules=%q", c.rules)
	}
	return text
}

// ---------------------------------------------------------------- independent readers / oracle helpers

func vcExists(dir, name string) bool {
	_, err := os.Lstat(filepath.Join(dir, name))
	return err == nil
}

func vcListFiles(dir string) []string {
	var out []string
	_ = filepath.WalkDir(dir, func(p string, entry fs.DirEntry, err error) error {
		if err != nil || entry.IsDir() {
			return nil
		}
		rel, _ := filepath.Rel(dir, p)
		out = append(out, filepath.ToSlash(rel))
		return nil
	})
	sort.Strings(out)
	return out
}

// vcListEntries: EVERY entry below dir (directories and symbolic links included, links are not followed):
// slash path -> "file" | "dir" | "symlink" | "other".
func vcListEntries(dir string) map[string]string {
	out := map[string]string{}
	_ = filepath.WalkDir(dir, func(p string, entry fs.DirEntry, err error) error {
		if err != nil || p == dir {
			return nil
		}
		rel, _ := filepath.Rel(dir, p)
		kind := "other"
		switch mode := entry.Type(); {
		case mode.IsDir():
			kind = "dir"
		case mode&fs.ModeSymlink != 0:
			kind = "symlink"
		case mode.IsRegular():
			kind = "file"
		}
		out[filepath.ToSlash(rel)] = kind
		return nil
	})
	return out
}

// vcReadRawManifest decodes manifest.json generically (numbers kept as written).
func vcReadRawManifest(dir string) (any, error) {
	content, err := os.ReadFile(filepath.Join(dir, "manifest.json"))
	if err != nil {
		return nil, err
	}
	return vcDecodeRaw(content)
}

func vcDecodeRaw(content []byte) (any, error) {
	decoder := json.NewDecoder(strings.NewReader(string(content)))
	decoder.UseNumber()
	var v any
	if err := decoder.Decode(&v); err != nil {
		return nil, err
	}
	return v, nil
}

// vcDiffJSON appends "<path>: <got> <gotName>, <want> <wantName>" for every difference (at most limit); the paths in
// ignored are skipped.
func vcDiffJSON(path string, want, got any, gotName, wantName string, ignored map[string]bool, limit int, out *[]string) {
	if len(*out) >= limit || ignored[path] {
		return
	}
	show := func(v any) string {
		text := vcCanon(v)
		if len(text) > 160 {
			text = text[:160] + "..."
		}
		return text
	}
	switch w := want.(type) {
	case map[string]any:
		g, ok := got.(map[string]any)
		if !ok {
			*out = append(*out, fmt.Sprintf("%s: %s %s, %s %s", path, show(got), gotName, show(want), wantName))
			return
		}
		keys := map[string]bool{}
		for k := range w {
			keys[k] = true
		}
		for k := range g {
			keys[k] = true
		}
		sorted := make([]string, 0, len(keys))
		for k := range keys {
			sorted = append(sorted, k)
		}
		sort.Strings(sorted)
		for _, k := range sorted {
			wv, wok := w[k]
			gv, gok := g[k]
			sub := path + "." + k
			if ignored[sub] {
				continue
			}
			if !wok {
				*out = append(*out, fmt.Sprintf("%s: %s %s, absent %s", sub, show(gv), gotName, wantName))
			} else if !gok {
				*out = append(*out, fmt.Sprintf("%s: absent %s, %s %s", sub, gotName, show(wv), wantName))
			} else {
				vcDiffJSON(sub, wv, gv, gotName, wantName, ignored, limit, out)
			}
			if len(*out) >= limit {
				return
			}
		}
	case []any:
		g, ok := got.([]any)
		if !ok {
			*out = append(*out, fmt.Sprintf("%s: %s %s, %s %s", path, show(got), gotName, show(want), wantName))
			return
		}
		if len(g) != len(w) {
			*out = append(*out, fmt.Sprintf("%s: %d elements %s, %d %s", path, len(g), gotName, len(w), wantName))
		}
		for i := 0; i < len(w) && i < len(g); i++ {
			vcDiffJSON(fmt.Sprintf("%s[%d]", path, i), w[i], g[i], gotName, wantName, ignored, limit, out)
		}
	default:
		if !reflect.DeepEqual(want, got) {
			*out = append(*out, fmt.Sprintf("%s: %s %s, %s %s", path, show(got), gotName, show(want), wantName))
		}
	}
}

// vcIgnoredManifestPaths: the only field of manifest.json that is not derived from the data and the options.
var vcIgnoredManifestPaths = map[string]bool{"$.generated_at": true}

func vcFileSHA(path string) (string, int64, error) {
	content, err := os.ReadFile(path)
	if err != nil {
		return "", 0, err
	}
	sum := sha256.Sum256(content)
	return hex.EncodeToString(sum[:]), int64(len(content)), nil
}

type vcCkFile struct {
	Phase           string `json:"phase"`
	Path            string `json:"path"`
	SHA256          string `json:"sha256"`
	CompressedBytes int64  `json:"compressed_bytes"`
}

type vcCkInfo struct {
	present bool
	files   []vcCkFile
	counted map[string]bool // graphs whose source counts are recorded in the checkpoint
	// the graph in progress, as the checkpoint records it (extension, item 5)
	hasCurrent    bool
	curName       string
	curPhase      string // "nodes" / "edges"
	curPhaseFiles int    // committed fragments of the current phase
	curOtherFiles int    // committed fragments of the other phase
}

// independent (harness-side) reading of the checkpoint file
func vcReadCheckpoint(dir string) vcCkInfo {
	info := vcCkInfo{counted: map[string]bool{}}
	content, err := os.ReadFile(filepath.Join(dir, ".retriever-checkpoint.json"))
	if err != nil {
		return info
	}
	var raw struct {
		Manifest struct {
			Graphs []struct {
				Name  string     `json:"name"`
				Files []vcCkFile `json:"files"`
			} `json:"graphs"`
		} `json:"manifest"`
		Current *struct {
			Name        string     `json:"name"`
			HasSnapshot bool       `json:"has_snapshot"`
			Phase       string     `json:"phase"`
			Files       []vcCkFile `json:"files"`
		} `json:"current_graph"`
	}
	if json.Unmarshal(content, &raw) != nil {
		return info
	}
	info.present = true
	for _, g := range raw.Manifest.Graphs {
		info.counted[g.Name] = true
		info.files = append(info.files, g.Files...)
	}
	if raw.Current != nil {
		if raw.Current.HasSnapshot {
			info.counted[raw.Current.Name] = true
		}
		info.files = append(info.files, raw.Current.Files...)
		info.hasCurrent, info.curName, info.curPhase = true, raw.Current.Name, raw.Current.Phase
		for _, f := range raw.Current.Files {
			if f.Phase == raw.Current.Phase {
				info.curPhaseFiles++
			} else {
				info.curOtherFiles++
			}
		}
	}
	return info
}

func vcIntact(dir string, info vcCkInfo) []string {
	var problems []string
	for _, f := range info.files {
		sum, size, err := vcFileSHA(filepath.Join(dir, filepath.FromSlash(f.Path)))
		if err != nil {
			problems = append(problems, fmt.Sprintf("committed fragment %s is gone (%v)", f.Path, vcNormErr(dir, err)))
		} else if sum != f.SHA256 || size != f.CompressedBytes {
			problems = append(problems, fmt.Sprintf("committed fragment %s changed: sha256 %s size %d, checkpoint recorded %s size %d", f.Path, sum, size, f.SHA256, f.CompressedBytes))
		}
	}
	return problems
}

type vcRecords struct {
	nodes map[string][]string // graph -> sorted canonical records
	edges map[string][]string
}

func vcCanon(v any) string {
	out, err := json.Marshal(v)
	if err != nil {
		return "unmarshalable:" + err.Error()
	}
	return string(out)
}

// records as the dump must contain them, derived from the fake database only (valid without scrubbing)
func vcExpected(d *vcData, withProps bool) vcRecords {
	rec := vcRecords{nodes: map[string][]string{}, edges: map[string][]string{}}
	for name, g := range d.graphs {
		rec.nodes[name], rec.edges[name] = []string{}, []string{}
		for _, n := range g.nodes {
			kinds := append([]string(nil), n.kinds...)
			sort.Strings(kinds)
			item := FragmentNode{ID: strconv.FormatUint(n.id, 10), Kinds: kinds}
			if withProps {
				item.Properties = n.props
			}
			rec.nodes[name] = append(rec.nodes[name], vcCanon(item))
		}
		for _, e := range g.edges {
			item := FragmentEdge{StartID: strconv.FormatUint(e.start, 10), EndID: strconv.FormatUint(e.end, 10), Kind: e.kind}
			if withProps {
				item.Properties = e.props
			}
			rec.edges[name] = append(rec.edges[name], vcCanon(item))
		}
		sort.Strings(rec.nodes[name])
		sort.Strings(rec.edges[name])
	}
	return rec
}

func vcDecode(dir string, m Manifest, withProps bool) (vcRecords, []string) {
	rec := vcRecords{nodes: map[string][]string{}, edges: map[string][]string{}}
	var problems []string
	for _, g := range m.Graphs {
		rec.nodes[g.Name], rec.edges[g.Name] = []string{}, []string{}
		for _, f := range g.Files {
			switch f.Phase {
			case PhaseNodes:
				n, err := readNodeFragmentFile(dir, m.Compression, f, func(item FragmentNode) error {
					if !withProps {
						item.Properties = nil
					}
					rec.nodes[g.Name] = append(rec.nodes[g.Name], vcCanon(item))
					return nil
				})
				if err != nil {
					problems = append(problems, "decode "+f.Path+": "+vcNormErr(dir, err))
				} else if n != f.Count {
					problems = append(problems, fmt.Sprintf("fragment %s holds %d records, manifest says %d", f.Path, n, f.Count))
				}
			case PhaseEdges:
				n, err := readEdgeFragmentFile(dir, m.Compression, f, func(item FragmentEdge) error {
					if !withProps {
						item.Properties = nil
					}
					rec.edges[g.Name] = append(rec.edges[g.Name], vcCanon(item))
					return nil
				})
				if err != nil {
					problems = append(problems, "decode "+f.Path+": "+vcNormErr(dir, err))
				} else if n != f.Count {
					problems = append(problems, fmt.Sprintf("fragment %s holds %d records, manifest says %d", f.Path, n, f.Count))
				}
			default:
				problems = append(problems, fmt.Sprintf("fragment %s has phase %q", f.Path, f.Phase))
			}
		}
		sort.Strings(rec.nodes[g.Name])
		sort.Strings(rec.edges[g.Name])
	}
	return rec, problems
}

func vcNormErr(dir string, err error) string {
	if err == nil {
		return "<nil>"
	}
	return strings.ReplaceAll(err.Error(), dir, "<dir>")
}

type vcReference struct {
	manifest Manifest
	raw      any       // manifest.json of the uninterrupted dump, decoded generically
	full     vcRecords // with properties
	hooks    []string
	ops      []string
}

// vcCheckComplete: the directory is a complete dump equivalent to the reference.
func vcCheckComplete(dir string, cfg vcConfig, data *vcData, ref *vcReference, allowCheckpoint bool) []string {
	var problems []string
	m, err := readManifest(dir)
	if err != nil {
		return []string{"manifest does not read/validate: " + vcNormErr(dir, err)}
	}
	want := map[string]bool{manifestFileName: true}
	for _, g := range m.Graphs {
		for _, f := range g.Files {
			if want[f.Path] {
				problems = append(problems, "manifest lists "+f.Path+" twice")
			}
			want[f.Path] = true
			sum, size, err := vcFileSHA(filepath.Join(dir, filepath.FromSlash(f.Path)))
			if err != nil {
				problems = append(problems, "listed fragment "+f.Path+" unreadable: "+vcNormErr(dir, err))
			} else if sum != f.SHA256 || size != f.CompressedBytes {
				problems = append(problems, fmt.Sprintf("fragment %s has sha256 %s size %d, manifest records %s size %d", f.Path, sum, size, f.SHA256, f.CompressedBytes))
			}
		}
	}
	for _, f := range vcListFiles(dir) {
		if want[f] {
			continue
		}
		if f == dumpCheckpointFileName {
			if !allowCheckpoint {
				problems = append(problems, "checkpoint file left behind")
			}
			continue
		}
		problems = append(problems, "file not accounted for by the manifest: "+f)
	}
	// directories and symbolic links count too: only the listed fragments (regular files) and the directories leading to
	// them may exist besides the manifest
	neededDirs := map[string]bool{}
	for f := range want {
		for d := filepath.ToSlash(filepath.Dir(f)); d != "." && d != "/"; d = filepath.ToSlash(filepath.Dir(d)) {
			neededDirs[d] = true
		}
	}
	entries := vcListEntries(dir)
	names := make([]string, 0, len(entries))
	for name := range entries {
		names = append(names, name)
	}
	sort.Strings(names)
	for _, name := range names {
		switch kind := entries[name]; {
		case kind == "dir" && !neededDirs[name]:
			problems = append(problems, "directory not accounted for by the manifest: "+name+"/")
		case kind != "dir" && kind != "file" && (want[name] || name == dumpCheckpointFileName):
			problems = append(problems, fmt.Sprintf("entry %s is a %s, not a regular file", name, kind))
		}
	}
	if err := verifyCollectionFragments(dir, m); err != nil {
		problems = append(problems, "verifyCollectionFragments: "+vcNormErr(dir, err))
	}
	targets := vcTargets(data)
	if len(m.Graphs) != len(targets) {
		problems = append(problems, fmt.Sprintf("manifest has %d graphs, %d targets were dumped", len(m.Graphs), len(targets)))
		return problems
	}
	got, decodeProblems := vcDecode(dir, m, true)
	problems = append(problems, decodeProblems...)
	idsWant := vcExpected(data, false)
	idsGot, _ := vcDecode(dir, m, false)
	for i, g := range m.Graphs {
		if g.Name != targets[i].Name {
			problems = append(problems, fmt.Sprintf("manifest graph %d is %q, target is %q", i, g.Name, targets[i].Name))
			continue
		}
		if g.NodeCount != int64(len(got.nodes[g.Name])) || g.EdgeCount != int64(len(got.edges[g.Name])) {
			problems = append(problems, fmt.Sprintf("graph %q manifest counts nodes=%d edges=%d, fragments hold nodes=%d edges=%d", g.Name, g.NodeCount, g.EdgeCount, len(got.nodes[g.Name]), len(got.edges[g.Name])))
		}
		if !reflect.DeepEqual(idsGot.nodes[g.Name], idsWant.nodes[g.Name]) {
			problems = append(problems, fmt.Sprintf("graph %q node records (id,kinds) %v, source holds %v", g.Name, idsGot.nodes[g.Name], idsWant.nodes[g.Name]))
		}
		if !reflect.DeepEqual(idsGot.edges[g.Name], idsWant.edges[g.Name]) {
			problems = append(problems, fmt.Sprintf("graph %q edge records (start,end,kind) %v, source holds %v", g.Name, idsGot.edges[g.Name], idsWant.edges[g.Name]))
		}
		if !cfg.scrub {
			full := vcExpected(data, true)
			if !reflect.DeepEqual(got.nodes[g.Name], full.nodes[g.Name]) {
				problems = append(problems, fmt.Sprintf("graph %q node records %v, source holds %v", g.Name, got.nodes[g.Name], full.nodes[g.Name]))
			}
			if !reflect.DeepEqual(got.edges[g.Name], full.edges[g.Name]) {
				problems = append(problems, fmt.Sprintf("graph %q edge records %v, source holds %v", g.Name, got.edges[g.Name], full.edges[g.Name]))
			}
		}
		if ref != nil {
			if !reflect.DeepEqual(got.nodes[g.Name], ref.full.nodes[g.Name]) {
				problems = append(problems, fmt.Sprintf("graph %q node records %v differ from the uninterrupted dump %v", g.Name, got.nodes[g.Name], ref.full.nodes[g.Name]))
			}
			if !reflect.DeepEqual(got.edges[g.Name], ref.full.edges[g.Name]) {
				problems = append(problems, fmt.Sprintf("graph %q edge records %v differ from the uninterrupted dump %v", g.Name, got.edges[g.Name], ref.full.edges[g.Name]))
			}
			rg := ref.manifest.Graphs[i]
			if !reflect.DeepEqual(g.NodeActionCounts, rg.NodeActionCounts) || !reflect.DeepEqual(g.EdgeActionCounts, rg.EdgeActionCounts) {
				problems = append(problems, fmt.Sprintf("graph %q action counts %v/%v differ from the uninterrupted dump %v/%v", g.Name, g.NodeActionCounts, g.EdgeActionCounts, rg.NodeActionCounts, rg.EdgeActionCounts))
			}
		}
	}
	if ref != nil {
		if !reflect.DeepEqual(m.Schema, ref.manifest.Schema) {
			problems = append(problems, fmt.Sprintf("manifest schema %+v differs from the uninterrupted dump %+v", m.Schema, ref.manifest.Schema))
		}
		if (m.Metrics == nil) != (ref.manifest.Metrics == nil) || (m.Metrics != nil && !reflect.DeepEqual(*m.Metrics, *ref.manifest.Metrics)) {
			problems = append(problems, fmt.Sprintf("manifest metrics %s differ from the uninterrupted dump %s", vcCanon(m.Metrics), vcCanon(ref.manifest.Metrics)))
		}
		if !reflect.DeepEqual(m.Scrub, ref.manifest.Scrub) {
			problems = append(problems, fmt.Sprintf("manifest scrub summary %+v differs from the uninterrupted dump %+v", m.Scrub, ref.manifest.Scrub))
		}
		if m.Compression != ref.manifest.Compression || m.CompressionLevel != ref.manifest.CompressionLevel || m.Driver != ref.manifest.Driver || m.Source != ref.manifest.Source {
			problems = append(problems, "manifest header (driver/compression/source) differs from the uninterrupted dump")
		}
		// item 6: the whole manifest, field by field
		if ref.raw != nil {
			if raw, err := vcReadRawManifest(dir); err != nil {
				problems = append(problems, "manifest.json does not decode: "+vcNormErr(dir, err))
			} else {
				var diffs []string
				vcDiffJSON("$", ref.raw, raw, "here", "in the uninterrupted dump", vcIgnoredManifestPaths, 6, &diffs)
				for _, d := range diffs {
					problems = append(problems, "manifest.json differs from the uninterrupted dump at "+d)
				}
			}
		}
	}
	return problems
}

// ---------------------------------------------------------------- one job = one configuration x one crash model

var vcDigits = regexp.MustCompile(`[0-9]+`)

type vcJob struct {
	cfg     vcConfig
	strict  bool
	full    bool // bound "2": all second interruptions
	root    string
	seed    int64
	part    int // this job handles the first interruptions number i with i % parts == part
	parts   int
	aborted bool // a Dump call hung: nothing more can be run in this process

	cases                                       int
	sequences                                   int
	refused                                     int
	injected                                    int             // resumes that returned an error because a read error was injected into them
	completed                                   int             // resumes that returned nil (and were checked against the reference)
	strayRuns, strayRefused, toleratedCompleted int             // item 5
	stuck                                       map[string]bool // kinds of first interruption after which a fault free resume is refused
	// third extension (items 8-10)
	cancelRuns, cancelCompleted, cancelResumes int            // Dump calls with a cancellation; of these returned nil; fault free resumes after one
	damageStates, damageRuns, damageRefused    int            // item 9
	damageClean                                int            // resumes over a damaged fragment that returned nil AND left a correct complete dump
	identityRuns, recordedRuns                 map[string]int // identity field -> must-refuse resumes run with only its source option / only its recorded value changed
	reasons                                    map[string]int
	devHits                                    map[string]int
	failCount                                  int
	failures                                   []string // the (at most 5) lexicographically smallest failure strings
	refs                                       map[string]*vcReference
}

func (j *vcJob) mode() string {
	if j.strict {
		return "strict"
	}
	return "unwind"
}

func (j *vcJob) fail(format string, args ...any) {
	msg := fmt.Sprintf("[%s model=%s] ", j.cfg, j.mode()) + fmt.Sprintf(format, args...)
	if len(msg) > 1200 {
		msg = msg[:1200] + "..."
	}
	j.failCount++
	j.failures = append(j.failures, msg)
	sort.Strings(j.failures)
	if len(j.failures) > 5 {
		j.failures = j.failures[:5]
	}
}

// deviate reports a violation of a given class: failure unless the class is a known deviation.
// oracleRefinements: classes where the literal first reading of the statement asks for more than any implementation
// can give, so the weaker check named in the header comment IS the oracle there (these are not findings):
//   - a crash after the manifest was renamed into place finds a manifest - of a COMPLETE dump (checked: equivalent to
//     the reference); "no manifest" can only be demanded while the dump is incomplete, otherwise no publish order at
//     all would satisfy the statement;
//   - the source changed before anything of that graph was counted or committed: the resumed dump is a complete dump
//     of the changed source (checked), indistinguishable from an uninterrupted dump started later.
var oracleRefinements = []string{
	"manifest-present-after-crash@manifest.renamed",
	"manifest-present-after-crash@checkpoint.removed",
	"source-change-undetected:graph-not-yet-counted",
}

func (j *vcJob) deviate(class string, format string, args ...any) {
	// the statement speaks of FILES the checkpoint does not account for: an empty stray directory holds none and is
	// counted as a note (it cannot be mistaken for dump content; a fragment that would have to be written at its path
	// fails the rename and the resume is refused, which the harness checks)
	if strings.Contains(class, ":empty-directory") {
		j.devHits["note:"+class]++
		return
	}
	for _, refined := range oracleRefinements {
		if refined == class {
			j.devHits["refined:"+class]++
			return
		}
	}
	for _, known := range knownDeviations {
		if known == class {
			j.devHits[class]++
			return
		}
	}
	j.fail("("+class+") "+format, args...)
}

func (j *vcJob) refuse(dir string, err error) {
	j.refused++
	j.reasons[vcDigits.ReplaceAllString(vcNormErr(dir, err), "#")]++
}

func (j *vcJob) dump(dir string, data *vcData, opts DumpOptions, resume bool, fault vcFault) vcOutcome {
	opts.Resume = resume
	return j.call(dir, data, vcDriver, vcTargets(data), opts, fault)
}

func (j *vcJob) call(dir string, data *vcData, driver string, targets []GraphTarget, opts DumpOptions, fault vcFault) vcOutcome {
	if j.aborted {
		return vcOutcome{harnessErr: "not run: an earlier Dump call hung"}
	}
	j.cases++
	out := vcRunDump(dir, data, driver, targets, opts, fault, j.strict)
	if out.hung {
		j.aborted = true
	}
	return out
}

func (j *vcJob) reference(data *vcData) *vcReference {
	if ref, ok := j.refs[data.name]; ok {
		return ref
	}
	dir := filepath.Join(j.root, "ref-"+data.name)
	_ = os.RemoveAll(dir)
	out := j.dump(dir, data, j.cfg.options(), false, vcFault{})
	ref := &vcReference{hooks: out.hooks, ops: out.ops}
	j.refs[data.name] = ref
	if out.harnessErr != "" || out.crashed || out.err != nil {
		j.fail("uninterrupted dump of %s failed: %s %s", data.name, out.harnessErr, vcNormErr(dir, out.err))
		return ref
	}
	for _, p := range vcCheckComplete(dir, j.cfg, data, nil, false) {
		j.fail("uninterrupted dump of %s: %s", data.name, p)
	}
	ref.manifest, _ = readManifest(dir)
	if raw, err := vcReadRawManifest(dir); err != nil {
		j.fail("uninterrupted dump of %s: manifest.json does not decode: %v", data.name, err)
	} else {
		ref.raw = raw
		j.checkReturnedManifest(dir, out, "uninterrupted dump of "+data.name)
	}
	ref.full, _ = vcDecode(dir, ref.manifest, true)
	var nodes, edges int64
	for _, g := range data.graphs {
		nodes, edges = nodes+int64(len(g.nodes)), edges+int64(len(g.edges))
	}
	if out.res.NodeCount != nodes || out.res.EdgeCount != edges {
		j.fail("uninterrupted dump of %s returned counts nodes=%d edges=%d, source holds %d/%d", data.name, out.res.NodeCount, out.res.EdgeCount, nodes, edges)
	}
	_ = os.RemoveAll(dir)
	return ref
}

func vcFaults(hooks, ops []string, all bool) []vcFault {
	pick := func(n int) []int {
		var out []int
		for i := 1; i <= n; i++ {
			if all || i <= 3 || i == n {
				out = append(out, i)
			}
		}
		return out
	}
	var out []vcFault
	for _, k := range pick(len(hooks)) {
		out = append(out, vcFault{kind: vcFaultCrash, at: k, what: hooks[k-1]})
	}
	for _, k := range pick(len(hooks)) { // item 8: the same positions, the context is cancelled instead
		out = append(out, vcFault{kind: vcFaultCancel, at: k, what: hooks[k-1]})
	}
	for _, n := range pick(len(ops)) {
		out = append(out, vcFault{kind: vcFaultReadError, at: n, what: ops[n-1]})
		if strings.HasPrefix(ops[n-1], "fetch") {
			out = append(out, vcFault{kind: vcFaultCursor, at: n, what: ops[n-1]})
		}
	}
	return out
}

func vcPostCommit(point string) bool {
	return point == "manifest.renamed" || point == "checkpoint.removed"
}

// checkInterrupted: the Dump call with the given fault was indeed interrupted; returns false if the sequence
// cannot be continued.
func (j *vcJob) checkInterrupted(dir string, out vcOutcome, fault vcFault, data *vcData, hadManifest bool, desc string) bool {
	if out.harnessErr != "" {
		j.fail("%s: %s", desc, out.harnessErr)
		return false
	}
	if fault.kind == vcFaultCancel {
		j.cancelRuns++
		if out.crashed {
			j.fail("%s: unexpected crash sentinel", desc)
			return false
		}
		if !out.cancelled {
			j.fail("%s: cancel position not reached (Dump returned err=%v after %d hook invocations)", desc, out.err, len(out.hooks))
			return false
		}
		if out.err == nil {
			// Dump did not notice the cancellation (or was past its last check) and reported success: then the dump is complete
			j.cancelCompleted++
			if !hadManifest {
				for _, p := range vcCheckComplete(dir, j.cfg, data, j.reference(data), false) {
					j.fail("%s: Dump returned nil after the cancellation but %s", desc, p)
				}
			}
			return false
		}
		return true
	}
	if fault.kind == vcFaultCrash {
		if !out.crashed {
			j.fail("%s: crash point not reached (Dump returned err=%v after %d hook invocations)", desc, out.err, len(out.hooks))
			return false
		}
		return true
	}
	if out.err == nil {
		j.fail("%s: Dump returned nil although a database read failed", desc)
	}
	return true
}

// afterInterruption: oracle right after an interruption of a dump/resume that started without a manifest.
func (j *vcJob) afterInterruption(dir string, out vcOutcome, fault vcFault, data *vcData, desc string) {
	if !vcExists(dir, manifestFileName) {
		return
	}
	if (fault.kind == vcFaultCrash || fault.kind == vcFaultCancel) && vcPostCommit(out.crashPoint) {
		j.deviate("manifest-present-after-crash@"+out.crashPoint, "%s: manifest.json exists right after the interruption", desc)
		for _, p := range vcCheckComplete(dir, j.cfg, data, j.reference(data), out.crashPoint == "manifest.renamed") {
			j.fail("%s: manifest exists after the crash but the directory is not a complete dump: %s", desc, p)
		}
		return
	}
	j.fail("%s: manifest.json exists right after the interruption; files=%v", desc, vcListFiles(dir))
}

// checkResume: oracle for a fault free resume that ran in dir. pre = checkpoint as it was before the attempt.
func (j *vcJob) checkResume(dir string, out vcOutcome, pre vcCkInfo, preManifest bool, data *vcData, desc string) {
	if out.harnessErr != "" {
		j.fail("%s: %s", desc, out.harnessErr)
		return
	}
	if out.crashed {
		j.fail("%s: unexpected crash sentinel", desc)
		return
	}
	if out.err == nil {
		j.completed++
		for _, p := range vcCheckComplete(dir, j.cfg, data, j.reference(data), false) {
			j.fail("%s: resume returned nil but %s", desc, p)
		}
		var nodes, edges int64
		for _, g := range data.graphs {
			nodes, edges = nodes+int64(len(g.nodes)), edges+int64(len(g.edges))
		}
		if out.res.NodeCount != nodes || out.res.EdgeCount != edges {
			j.fail("%s: resume returned counts nodes=%d edges=%d, source holds %d/%d", desc, out.res.NodeCount, out.res.EdgeCount, nodes, edges)
		}
		j.checkReturnedManifest(dir, out, desc)
		return
	}
	j.refuse(dir, out.err)
	if !preManifest && vcExists(dir, manifestFileName) {
		j.fail("%s: resume returned error %q but left a manifest", desc, vcNormErr(dir, out.err))
	}
	for _, p := range vcIntact(dir, pre) {
		j.fail("%s: resume returned error %q and %s", desc, vcNormErr(dir, out.err), p)
	}
}

// checkReturnedManifest: the Manifest value a successful Dump returns is the one it wrote (generic comparison, every field).
func (j *vcJob) checkReturnedManifest(dir string, out vcOutcome, desc string) {
	encoded, err := json.Marshal(out.res.Manifest)
	if err != nil {
		j.fail("%s: returned manifest does not encode: %v", desc, err)
		return
	}
	returned, err := vcDecodeRaw(encoded)
	if err != nil {
		j.fail("%s: returned manifest does not decode: %v", desc, err)
		return
	}
	onDisk, err := vcReadRawManifest(dir)
	if err != nil {
		j.fail("%s: manifest.json does not decode: %s", desc, vcNormErr(dir, err))
		return
	}
	var diffs []string
	vcDiffJSON("$", onDisk, returned, "in the returned DumpResult.Manifest", "in manifest.json", nil, 4, &diffs)
	for _, d := range diffs {
		j.fail("%s: returned manifest differs from the written one at %s", desc, d)
	}
	if want := filepath.Join(dir, "manifest.json"); out.res.ManifestPath != want {
		j.fail("%s: returned ManifestPath %q, want <dir>/manifest.json", desc, strings.ReplaceAll(out.res.ManifestPath, dir, "<dir>"))
	}
}

type vcNegative struct {
	name   string
	opts   func(o DumpOptions) DumpOptions
	driver string
	target []GraphTarget
	data   *vcData
	graph  string // mutated graph (source changes)
	class  string // deviation class if it is accepted although it must be refused ("" = hard failure)
	files  map[string]string
	// item 10
	field    string                                 // Go name of the dumpCheckpointIdentity field whose source option (and nothing else) is changed
	recorded bool                                   // the RECORDED value of the field is changed (checkpoint file edited), the options are the original ones
	prepare  func(work string) (ok bool, err error) // edits the copied state before the resume; ok=false: not applicable to this state
}

// vcIdentityField describes one field of the run identity as the harness varies it.
type vcIdentityField struct {
	goName, jsonKey string
	kind            reflect.Kind
}

// vcIdentityFields enumerates ALL fields of dumpCheckpointIdentity by reflection, so a field added to the identity
// later is noticed (the parent process fails if a field has no variation, see the driver).
func vcIdentityFields() []vcIdentityField {
	var out []vcIdentityField
	t := reflect.TypeOf(dumpCheckpointIdentity{})
	for i := 0; i < t.NumField(); i++ {
		f := t.Field(i)
		key := strings.Split(f.Tag.Get("json"), ",")[0]
		if key == "" {
			key = f.Name
		}
		out = append(out, vcIdentityField{goName: f.Name, jsonKey: key, kind: f.Type.Kind()})
	}
	return out
}

// vcOptionSideFields: identity field -> the source option a resume changes for it (documentation and coverage table).
// ScrubRulesVersion has no option behind it (it is a constant of the binary): it is varied on the recorded side only,
// i.e. the checkpoint claims to come from a binary with other rules.
var vcOptionSideFields = map[string]string{
	"Driver":            "driver name argument",
	"Graphs":            "target list argument",
	"Compression":       "DumpOptions.Compression",
	"CompressionLevel":  "DumpOptions.ZstdLevel",
	"Scrub":             "DumpOptions.Scrub",
	"ScrubConfigSHA256": "DumpOptions.ScrubConfig (rules file content)",
	"ScrubSaltSHA256":   "DumpOptions.Salt",
	"ShardSize":         "DumpOptions.ShardSize",
	"BatchSize":         "DumpOptions.BatchSize",
}

// vcEditRecordedIdentity changes ONE value of the "identity" object of the checkpoint file in dir, generically (the file
// is decoded as plain JSON): strings get a suffix, numbers are incremented, lists get one more element; a key the file
// does not hold (omitted because empty) is added. ok=false: there is no checkpoint to edit.
func vcEditRecordedIdentity(dir string, field vcIdentityField) (bool, error) {
	p := filepath.Join(dir, ".retriever-checkpoint.json")
	content, err := os.ReadFile(p)
	if err != nil {
		return false, nil
	}
	raw, err := vcDecodeRaw(content)
	if err != nil {
		return false, nil
	}
	top, ok := raw.(map[string]any)
	if !ok {
		return false, nil
	}
	identity, ok := top["identity"].(map[string]any)
	if !ok {
		return false, fmt.Errorf("checkpoint has no identity object")
	}
	switch v := identity[field.jsonKey].(type) {
	case string:
		identity[field.jsonKey] = v + "-x"
	case json.Number:
		n, err := v.Int64()
		if err != nil {
			return false, err
		}
		identity[field.jsonKey] = json.Number(strconv.FormatInt(n+1, 10))
	case []any:
		identity[field.jsonKey] = append(append([]any(nil), v...), "zz-recorded-extra")
	case nil:
		switch field.kind {
		case reflect.String:
			identity[field.jsonKey] = "verif-recorded-other"
		case reflect.Slice:
			identity[field.jsonKey] = []any{"zz-recorded-extra"}
		default:
			identity[field.jsonKey] = json.Number("1")
		}
	default:
		return false, fmt.Errorf("identity.%s has an unexpected JSON type %T", field.jsonKey, v)
	}
	edited, err := json.MarshalIndent(top, "", "  ")
	if err != nil {
		return false, err
	}
	return true, os.WriteFile(p, append(edited, '\n'), 0o600)
}

type vcRulesVariant struct{ name, content string }

// vcRulesVariants: the rules files a resume is tried with when the interrupted dump used base ("" = no file, defaults).
func vcRulesVariants(base string) []vcRulesVariant {
	var out []vcRulesVariant
	for _, v := range []vcRulesVariant{
		{"no-rules-file(defaults)", ""},
		{"name-preserved-instead-of-pseudonymised", vcRulesPreserveName},
		{"other-redaction-marker", vcRulesMarker},
		{"other-timestamp-shift", vcRulesShift},
	} {
		if v.content != base {
			out = append(out, v)
		}
	}
	return out
}

func (j *vcJob) negatives() []vcNegative {
	cfg, data := j.cfg, j.cfg.data
	other := CompressionGzip
	if cfg.codec == CompressionGzip {
		other = CompressionNone
	}
	out := []vcNegative{
		{name: "ShardSize+1", field: "ShardSize", opts: func(o DumpOptions) DumpOptions { o.ShardSize++; return o }},
		{name: "BatchSize+1", field: "BatchSize", opts: func(o DumpOptions) DumpOptions { o.BatchSize++; return o }},
		{name: "Compression=" + string(other), field: "Compression", opts: func(o DumpOptions) DumpOptions { o.Compression = other; return o }},
		{name: "ZstdLevel+1", field: "CompressionLevel", opts: func(o DumpOptions) DumpOptions { o.ZstdLevel++; return o }},
		{name: "driver-name-differs", field: "Driver", driver: vcDriver + "2"},
		{name: "extra-target", field: "Graphs", target: append(vcTargets(data), GraphTarget{Name: "zz-extra"})},
	}
	if cfg.scrub {
		out = append(out,
			vcNegative{name: "Scrub=none", field: "Scrub", opts: func(o DumpOptions) DumpOptions { o.Scrub, o.Salt, o.ScrubConfig = ScrubNone, "", nil; return o }},
			vcNegative{name: "Salt-differs", field: "ScrubSaltSHA256", opts: func(o DumpOptions) DumpOptions { o.Salt = "another-salt"; return o }})
		// item 10: same mode, same salt, another rules file (a fresh reader for every call)
		for _, alt := range vcRulesVariants(cfg.rules) {
			content := alt.content
			out = append(out, vcNegative{name: "ScrubConfig:" + alt.name, field: "ScrubConfigSHA256", class: "options-differ-accepted:scrub-rules-content", opts: func(o DumpOptions) DumpOptions {
				o.ScrubConfig = nil
				if content != "" {
					o.ScrubConfig = strings.NewReader(content)
				}
				return o
			}})
		}
	} else {
		out = append(out, vcNegative{name: "Scrub=full", field: "Scrub", opts: func(o DumpOptions) DumpOptions { o.Scrub, o.Salt = ScrubFull, "verif-salt"; return o }})
	}
	// item 10, recorded side: every field of the identity, one at a time, differs in the checkpoint from what the
	// (unchanged) options of the resume give
	for _, f := range vcIdentityFields() {
		field := f
		out = append(out, vcNegative{name: "recorded-identity:" + field.jsonKey, field: field.goName, recorded: true, class: "options-differ-accepted:recorded-" + field.jsonKey,
			prepare: func(work string) (bool, error) { return vcEditRecordedIdentity(work, field) }})
	}
	if len(data.order) > 1 {
		reversed := vcTargets(data)
		for a, b := 0, len(reversed)-1; a < b; a, b = a+1, b-1 {
			reversed[a], reversed[b] = reversed[b], reversed[a]
		}
		out = append(out, vcNegative{name: "targets-reversed", target: reversed})
	}
	for _, name := range data.order {
		g := data.graphs[name]
		var maxID uint64
		for _, n := range g.nodes {
			if n.id > maxID {
				maxID = n.id
			}
		}
		added := data.clone(data.name + "+node@" + name)
		added.graphs[name].nodes = append(added.graphs[name].nodes, vcNodeSpec{id: maxID + 4, kinds: []string{"KA"}, props: map[string]any{"name": "added"}})
		out = append(out, vcNegative{name: "source:node-added-to-" + name, data: added, graph: name})
		if len(g.edges) > 0 {
			removed := data.clone(data.name + "-edge@" + name)
			removed.graphs[name].edges = removed.graphs[name].edges[:len(g.edges)-1]
			out = append(out, vcNegative{name: "source:edge-removed-from-" + name, data: removed, graph: name})
		}
		if len(g.nodes) > 0 {
			swapped := data.clone(data.name + "~node@" + name)
			last := len(g.nodes) - 1
			swapped.graphs[name].nodes[last] = vcNodeSpec{id: maxID + 4, kinds: []string{"KB"}, props: map[string]any{"name": "replacement"}}
			out = append(out, vcNegative{name: "source:node-replaced-in-" + name, data: swapped, graph: name, class: "source-change-undetected:count-preserving"})
		}
	}
	ext, _ := compressionExtension(cfg.codec)
	gdir := "graphs/" + graphDirectoryName(data.order[0]) + "/"
	out = append(out,
		vcNegative{name: "extra:fragment-like-file", files: map[string]string{gdir + "nodes-000099.jsonl" + ext: "{\"id\":\"1\",\"kinds\":[]}\n"}},
		vcNegative{name: "extra:fragment-like-temp-of-later-shard", files: map[string]string{gdir + "edges-000098.jsonl" + ext + ".tmp": ""}},
		vcNegative{name: "extra:unrelated-file-in-root", files: map[string]string{"NOTES.txt": "hello"}},
		vcNegative{name: "extra:unrelated-file-in-graph-dir", files: map[string]string{gdir + "README": "hello"}},
	)
	return out
}

func (j *vcJob) runNegatives(state, work string, f1 vcFault, negs []vcNegative) {
	for _, neg := range negs {
		if j.aborted {
			return
		}
		desc := fmt.Sprintf("%s, then resume with %s", f1, neg.name)
		if err := vcCopyTree(state, work); err != nil {
			j.fail("%s: harness copy failed: %v", desc, err)
			continue
		}
		for rel, content := range neg.files {
			p := filepath.Join(work, filepath.FromSlash(rel))
			_ = os.MkdirAll(filepath.Dir(p), 0o755)
			if err := os.WriteFile(p, []byte(content), 0o600); err != nil {
				j.fail("%s: harness write failed: %v", desc, err)
			}
		}
		if neg.prepare != nil {
			ok, err := neg.prepare(work)
			if err != nil {
				j.fail("%s: harness could not prepare the state: %v", desc, err)
				continue
			}
			if !ok {
				continue
			}
		}
		if neg.field != "" {
			if neg.recorded {
				j.recordedRuns[neg.field]++
			} else {
				j.identityRuns[neg.field]++
			}
		}
		pre, preManifest := vcReadCheckpoint(work), vcExists(work, manifestFileName)
		opts := j.cfg.options()
		if neg.opts != nil {
			opts = neg.opts(opts)
		}
		opts.Resume = true
		data := j.cfg.data
		if neg.data != nil {
			data = neg.data
		}
		driver, targets := vcDriver, vcTargets(j.cfg.data)
		if neg.driver != "" {
			driver = neg.driver
		}
		if neg.target != nil {
			targets = neg.target
		}
		out := j.call(work, data, driver, targets, opts, vcFault{})
		if out.harnessErr != "" || out.crashed {
			j.fail("%s: %s crashed=%v", desc, out.harnessErr, out.crashed)
			continue
		}
		if out.err == nil {
			class := neg.class
			if neg.graph != "" && !pre.counted[neg.graph] {
				class = "source-change-undetected:graph-not-yet-counted"
			}
			if class == "" {
				j.fail("%s: resume returned nil, it must be refused; files=%v", desc, vcListFiles(work))
			} else {
				j.deviate(class, "%s: resume returned nil, it must be refused; files=%v", desc, vcListFiles(work))
				if class == "source-change-undetected:graph-not-yet-counted" {
					for _, p := range vcCheckComplete(work, j.cfg, data, j.reference(data), false) {
						j.fail("%s: resume returned nil but the result is not a complete dump of the changed source: %s", desc, p)
					}
				}
			}
			continue
		}
		j.refuse(work, out.err)
		if !preManifest && vcExists(work, manifestFileName) {
			j.fail("%s: refused (%s) but a manifest was written", desc, vcNormErr(work, out.err))
		}
		for _, p := range vcIntact(work, pre) {
			j.fail("%s: refused (%s) and %s", desc, vcNormErr(work, out.err), p)
		}
	}
}

// ---------------------------------------------------------------- item 5: unaccounted entries with unusual names

type vcStrayEntry struct {
	rel     string // slash path below the dump directory
	typ     byte   // 'f' regular file, 'd' empty directory, 'l' symbolic link
	content string // file content; for a link: slash path below the dump directory of the target ("" = the directory itself)
}

type vcStray struct {
	kind      string // class suffix
	where     string // root | graphs | graph:<name>
	entry     vcStrayEntry
	tolerated bool // one of the three temp names the code documents: either outcome is allowed
}

func vcOtherExt(ext string) string {
	if ext == "" {
		return ".gz"
	}
	return ""
}

// strays lists the entries to plant for the state described by the checkpoint ck (as read by the harness).
func (j *vcJob) strays(ck vcCkInfo) []vcStray {
	data := j.cfg.data
	ext, _ := compressionExtension(j.cfg.codec)
	type location struct{ where, prefix string }
	locations := []location{{"root", ""}, {"graphs", "graphs/"}, {"graph:" + data.order[0], "graphs/" + graphDirectoryName(data.order[0]) + "/"}}
	if last := data.order[len(data.order)-1]; last != data.order[0] {
		locations = append(locations, location{"graph:" + last, "graphs/" + graphDirectoryName(last) + "/"})
	}
	linkTarget := ".retriever-checkpoint.json"
	if len(ck.files) > 0 {
		linkTarget = ck.files[0].Path
	}
	var out []vcStray
	for _, loc := range locations {
		add := func(kind, name string, typ byte, content string) {
			out = append(out, vcStray{kind: kind, where: loc.where, entry: vcStrayEntry{rel: loc.prefix + name, typ: typ, content: content}})
		}
		add("dot-file", ".hidden", 'f', "x")
		add("dot-swap-file", ".nodes-000002.jsonl"+ext+".swp", 'f', "b0VIM 8.2")
		add("case-variant-of-fragment-name", "NODES-000001.jsonl"+ext, 'f', "{\"id\":\"3\",\"kinds\":[\"KA\"]}\n")
		add("extension-variant-of-fragment-name:bak", "nodes-000001.jsonl"+ext+".bak", 'f', "{\"id\":\"3\",\"kinds\":[\"KA\"]}\n")
		add("extension-variant-of-fragment-name:other-codec", "nodes-000001.jsonl"+vcOtherExt(ext), 'f', "{\"id\":\"3\",\"kinds\":[\"KA\"]}\n")
		add("zero-length-file", "zero", 'f', "")
		add("zero-length-fragment-like-file", "edges-000097.jsonl"+ext, 'f', "")
		add("empty-directory", "emptydir", 'd', "")
		add("empty-directory-named-like-fragment", "nodes-000096.jsonl"+ext, 'd', "")
		add("symlink-to-fragment", "nodes-000095.jsonl"+ext, 'l', linkTarget)
		add("symlink-to-directory", "linkdir", 'l', "")
	}
	at := func(kind, rel string, typ byte, content string, tolerated bool) {
		out = append(out, vcStray{kind: kind, where: "state-dependent", entry: vcStrayEntry{rel: rel, typ: typ, content: content}, tolerated: tolerated})
	}
	// the two root temp names the code documents: tolerated in the root only
	for _, name := range []string{".retriever-checkpoint.json.tmp", "manifest.json.tmp"} {
		at("tolerated-temp:"+name+":garbage", name, 'f', "garbage{", true)
		at("tolerated-temp:"+name+":zero-length", name, 'f', "", true)
		at("tolerated-temp:"+name+":symlink-to-fragment", name, 'l', linkTarget, true)
		at("tolerated-temp:"+name+":empty-directory", name, 'd', "", true)
		at("root-temp-name-one-level-down", "graphs/"+name, 'f', "garbage{", false)
		at("root-temp-name-in-graph-directory", "graphs/"+graphDirectoryName(data.order[0])+"/"+name, 'f', "garbage{", false)
	}
	if ck.hasCurrent && (ck.curPhase == "nodes" || ck.curPhase == "edges") {
		other := "edges"
		if ck.curPhase == "edges" {
			other = "nodes"
		}
		gdir := "graphs/" + graphDirectoryName(ck.curName) + "/"
		next := fmt.Sprintf("%s%s-%06d.jsonl%s", gdir, ck.curPhase, ck.curPhaseFiles+1, ext)
		afterNext := fmt.Sprintf("%s%s-%06d.jsonl%s", gdir, ck.curPhase, ck.curPhaseFiles+2, ext)
		otherNext := fmt.Sprintf("%s%s-%06d.jsonl%s", gdir, other, ck.curOtherFiles+1, ext)
		at("tolerated-temp:next-fragment:garbage", next+".tmp", 'f', "garbage\n", true)
		at("tolerated-temp:next-fragment:zero-length", next+".tmp", 'f', "", true)
		at("tolerated-temp:next-fragment:symlink-to-fragment", next+".tmp", 'l', linkTarget, true)
		at("tolerated-temp:next-fragment:empty-directory", next+".tmp", 'd', "", true)
		at("empty-directory-at-next-fragment-path", next, 'd', "", false)
		at("symlink-at-next-fragment-path", next, 'l', linkTarget, false)
		at("temp-of-shard-after-next", afterNext+".tmp", 'f', "", false)
		at("temp-of-other-phase", otherNext+".tmp", 'f', "", false)
	}
	return out
}

// plant creates the entry below dir; it returns the directories it had to create on the way (outermost first).
func (e vcStrayEntry) plant(dir string) ([]string, error) {
	abs := filepath.Join(dir, filepath.FromSlash(e.rel))
	var made []string
	for d := filepath.Dir(abs); len(d) > len(dir); d = filepath.Dir(d) {
		if _, err := os.Lstat(d); err != nil {
			made = append([]string{d}, made...)
		}
	}
	if err := os.MkdirAll(filepath.Dir(abs), 0o755); err != nil {
		return made, err
	}
	switch e.typ {
	case 'd':
		return made, os.Mkdir(abs, 0o755)
	case 'l':
		target, err := filepath.Rel(filepath.Dir(abs), filepath.Join(dir, filepath.FromSlash(e.content)))
		if err != nil {
			return made, err
		}
		return made, os.Symlink(target, abs)
	}
	return made, os.WriteFile(abs, []byte(e.content), 0o600)
}

func (e vcStrayEntry) String() string {
	switch e.typ {
	case 'd':
		return "empty directory " + e.rel + "/"
	case 'l':
		target := e.content
		if target == "" {
			target = "<the dump directory>"
		}
		return "symbolic link " + e.rel + " -> " + target
	}
	return fmt.Sprintf("file %s (%d bytes)", e.rel, len(e.content))
}

func (j *vcJob) runStrays(state, work string, f1 vcFault, pre vcCkInfo, preManifest bool) {
	data := j.cfg.data
	for _, stray := range j.strays(pre) {
		if j.aborted {
			return
		}
		desc := fmt.Sprintf("%s, then resume with an extra %s [%s, %s]", f1, stray.entry, stray.kind, stray.where)
		if err := vcCopyTree(state, work); err != nil {
			j.fail("%s: harness copy failed: %v", desc, err)
			continue
		}
		abs := filepath.Join(work, filepath.FromSlash(stray.entry.rel))
		if _, err := os.Lstat(abs); err == nil {
			continue // the state already holds an entry of that name (e.g. the temp file the crash left): nothing to plant
		}
		made, err := stray.entry.plant(work)
		if err != nil {
			j.fail("%s: harness could not plant the entry: %v", desc, err)
			continue
		}
		j.strayRuns++
		out := j.dump(work, data, j.cfg.options(), true, vcFault{})
		if stray.tolerated {
			// directories the HARNESS had to create for the temp name (a graph without fragments has none) are not the
			// code's to clean up: they are taken away again if they are empty (empty directories are a class of their own)
			for i := len(made) - 1; i >= 0; i-- {
				_ = os.Remove(made[i])
			}
			if out.err == nil && out.harnessErr == "" && !out.crashed {
				j.toleratedCompleted++
			}
			j.checkResume(work, out, pre, preManifest, data, desc)
			continue
		}
		if out.harnessErr != "" || out.crashed {
			j.fail("%s: %s crashed=%v", desc, out.harnessErr, out.crashed)
			continue
		}
		if out.err != nil {
			j.strayRefused++
			j.refuse(work, out.err)
			if !preManifest && vcExists(work, manifestFileName) {
				j.fail("%s: refused (%s) but a manifest was written", desc, vcNormErr(work, out.err))
			}
			for _, p := range vcIntact(work, pre) {
				j.fail("%s: refused (%s) and %s", desc, vcNormErr(work, out.err), p)
			}
			continue
		}
		_, statErr := os.Lstat(abs)
		survived := statErr == nil
		j.deviate("unaccounted-entry-accepted:"+stray.kind, "%s: resume returned nil, it must be refused (entry still there afterwards: %v); entries=%v", desc, survived, vcEntryList(work))
		if survived {
			j.deviate("unaccounted-entry-survives:"+stray.kind, "%s: resume returned nil and the entry is part of the published dump directory; entries=%v", desc, vcEntryList(work))
		}
		// the entry put aside, the rest must be a complete dump
		_ = os.RemoveAll(abs)
		for i := len(made) - 1; i >= 0; i-- {
			_ = os.Remove(made[i]) // only if empty
		}
		for _, p := range vcCheckComplete(work, j.cfg, data, j.reference(data), false) {
			j.fail("%s: resume returned nil and, the extra entry put aside, %s", desc, p)
		}
	}
}

func vcEntryList(dir string) []string {
	entries := vcListEntries(dir)
	out := make([]string, 0, len(entries))
	for name, kind := range entries {
		switch kind {
		case "dir":
			name += "/"
		case "symlink":
			name += "@"
		}
		out = append(out, name)
	}
	sort.Strings(out)
	return out
}

func (j *vcJob) run() {
	j.reasons, j.devHits, j.refs, j.stuck = map[string]int{}, map[string]int{}, map[string]*vcReference{}, map[string]bool{}
	j.identityRuns, j.recordedRuns = map[string]int{}, map[string]int{}
	defer os.RemoveAll(j.root)
	data := j.cfg.data
	ref := j.reference(data)
	if j.failCount > 0 {
		return
	}
	state, work := filepath.Join(j.root, "state"), filepath.Join(j.root, "work")
	if j.cfg.mode == "damage" {
		j.runDamage(ref, state, work)
		return
	}
	negs := j.negatives()
	if j.part == 0 && !j.strict {
		j.checkRulesVariantsBite(ref, work)
	}
	var firsts []vcFault
	for i, f := range vcFaults(ref.hooks, ref.ops, true) {
		if i%j.parts == j.part { // the split into parts does not depend on the seed
			firsts = append(firsts, f)
		}
	}
	if j.seed != 0 {
		rand.New(rand.NewSource(j.seed)).Shuffle(len(firsts), func(a, b int) { firsts[a], firsts[b] = firsts[b], firsts[a] })
	}
	for _, f1 := range firsts {
		if j.aborted {
			return
		}
		// sequences without any crash do not depend on the crash model: they are checked in the unwind job only
		// ((read error, crash) sequences are checked in both).
		dup := j.strict && f1.kind != vcFaultCrash
		j.sequences++
		_ = os.RemoveAll(state)
		desc1 := fmt.Sprintf("dump with %s", f1)
		o1 := j.dump(state, data, j.cfg.options(), false, f1)
		if !j.checkInterrupted(state, o1, f1, data, false, desc1) {
			continue
		}
		j.afterInterruption(state, o1, f1, data, desc1)
		preManifest := vcExists(state, manifestFileName)
		pre := vcReadCheckpoint(state)
		// item 8 (checked after every kind of interruption): what the checkpoint on disk lists is on disk, unchanged
		for _, p := range vcIntact(state, pre) {
			j.fail("%s: right after the interrupted run returned, the checkpoint on disk lists a fragment but %s", desc1, p)
		}

		if !dup {
			j.runNegatives(state, work, f1, negs)
			j.runStrays(state, work, f1, pre, preManifest)
		}

		// fault free resume
		if err := vcCopyTree(state, work); err != nil {
			j.fail("%s: harness copy failed: %v", desc1, err)
			continue
		}
		o2 := j.dump(work, data, j.cfg.options(), true, vcFault{})
		j.checkResume(work, o2, pre, preManifest, data, desc1+", then resume")
		if f1.kind == vcFaultCancel {
			j.cancelResumes++
			// item 8: nothing but the cancellation happened, so the resume must COMPLETE (checkResume has compared the
			// result with the uninterrupted reference); a refusal is a violation here
			if o2.err != nil && o2.harnessErr == "" && !o2.crashed && !preManifest {
				j.deviate("resume-refused-after-cancellation@"+f1.what, "%s, then resume: the resume must complete after a mere cancellation, it returned %q; files=%v", desc1, vcNormErr(work, o2.err), vcListFiles(work))
			}
		}
		if o2.err != nil && !preManifest {
			kind := "crash@"
			switch {
			case f1.kind == vcFaultCancel:
				kind = "cancel@"
			case f1.kind != vcFaultCrash:
				kind = "readerror@"
			}
			j.stuck[kind+f1.what] = true
		}

		// second interruption during the resume, then a fault free resume
		for _, f2 := range vcFaults(o2.hooks, o2.ops, j.full) {
			if j.aborted {
				return
			}
			if dup && f2.kind != vcFaultCrash {
				continue
			}
			j.sequences++
			desc2 := fmt.Sprintf("%s, then resume with %s", desc1, f2)
			if err := vcCopyTree(state, work); err != nil {
				j.fail("%s: harness copy failed: %v", desc2, err)
				continue
			}
			o2f := j.dump(work, data, j.cfg.options(), true, f2)
			if !j.checkInterrupted(work, o2f, f2, data, preManifest, desc2) {
				continue
			}
			if !preManifest {
				j.afterInterruption(work, o2f, f2, data, desc2)
			}
			for _, p := range vcIntact(work, pre) {
				j.fail("%s: %s", desc2, p)
			}
			if o2f.err != nil && f2.kind != vcFaultCancel {
				j.injected++ // the interrupted resume itself returned the injected read error: not a refusal
			}
			pre2, preManifest2 := vcReadCheckpoint(work), vcExists(work, manifestFileName)
			for _, p := range vcIntact(work, pre2) {
				j.fail("%s: right after the interrupted resume returned, the checkpoint on disk lists a fragment but %s", desc2, p)
			}
			o3 := j.dump(work, data, j.cfg.options(), true, vcFault{})
			j.checkResume(work, o3, pre2, preManifest2, data, desc2+", then resume")
			if f2.kind == vcFaultCancel {
				j.cancelResumes++
				// the fault free resume from the same state completed (o2), the cancelled resume changed nothing but
				// committed more: the next resume must complete as well
				if o2.err == nil && o3.err != nil && o3.harnessErr == "" && !o3.crashed && !preManifest2 {
					j.deviate("resume-refused-after-cancellation@"+f2.what, "%s, then resume: the resume must complete after a mere cancellation of the previous resume, it returned %q; files=%v", desc2, vcNormErr(work, o3.err), vcListFiles(work))
				}
			}
		}
	}
}

// checkRulesVariantsBite (harness sanity, item 10): an uninterrupted dump under the rules variant that preserves "name"
// (under the defaults when the configuration itself uses that variant) holds other records than the reference, i.e. the
// rules files the resumes are tried with are not just different bytes - they change what is written.
func (j *vcJob) checkRulesVariantsBite(ref *vcReference, work string) {
	if !j.cfg.scrub {
		return
	}
	alt := j.cfg
	alt.rules = vcRulesPreserveName
	if j.cfg.rules == vcRulesPreserveName {
		alt.rules = ""
	}
	hasName := false
	for _, g := range j.cfg.data.graphs {
		for _, n := range g.nodes {
			if _, ok := n.props["name"]; ok {
				hasName = true
			}
		}
	}
	if !hasName {
		return
	}
	_ = os.RemoveAll(work)
	out := j.dump(work, j.cfg.data, alt.options(), false, vcFault{})
	if out.harnessErr != "" || out.crashed || out.err != nil {
		j.fail("harness: uninterrupted dump under the other rules file failed: %s %s", out.harnessErr, vcNormErr(work, out.err))
		return
	}
	m, err := readManifest(work)
	if err != nil {
		j.fail("harness: dump under the other rules file: %s", vcNormErr(work, err))
		return
	}
	got, _ := vcDecode(work, m, true)
	if reflect.DeepEqual(got.nodes, ref.full.nodes) {
		j.fail("harness: the rules file %q does not change the node records of the dump, the scrub-rules variation is void", alt.rules)
	}
	_ = os.RemoveAll(work)
}

// ---------------------------------------------------------------- item 9: damage to committed fragments, length kept

type vcDamage struct {
	name  string
	apply func(content []byte) []byte // returns a damaged copy of the same length
}

func vcDamages() []vcDamage {
	flip := func(pos func(n int) int) func([]byte) []byte {
		return func(content []byte) []byte {
			out := append([]byte(nil), content...)
			if len(out) > 0 {
				out[pos(len(out))] ^= 0x01
			}
			return out
		}
	}
	return []vcDamage{
		{"first-byte-xor-01", flip(func(int) int { return 0 })},
		{"middle-byte-xor-01", flip(func(n int) int { return n / 2 })},
		{"last-byte-xor-01", flip(func(n int) int { return n - 1 })},
		{"zero-filled", func(content []byte) []byte { return make([]byte, len(content)) }},
	}
}

// runDamage: crash (strict model) at EVERY hook invocation k of the uninterrupted run; the first k that reaches each
// distinct committed state - (graphs completed, graph in progress, its phase, list of committed fragments) as the
// harness reads it from the checkpoint - is used. That covers the representative positions (after the first committed
// node fragment, after the node phase, inside the edge phase, after the first graph of a two-graph dump) and every
// other number of committed fragments. From each such state, for every committed fragment and every damage, one resume
// with the original options and the unchanged source.
func (j *vcJob) runDamage(ref *vcReference, state, work string) {
	data := j.cfg.data
	seen := map[string]bool{}
	for k := 1; k <= len(ref.hooks); k++ {
		if j.aborted {
			return
		}
		f1 := vcFault{kind: vcFaultCrash, at: k, what: ref.hooks[k-1]}
		desc1 := fmt.Sprintf("dump with %s", f1)
		_ = os.RemoveAll(state)
		o1 := j.dump(state, data, j.cfg.options(), false, f1)
		if !j.checkInterrupted(state, o1, f1, data, false, desc1) {
			continue
		}
		pre := vcReadCheckpoint(state)
		if !pre.present || len(pre.files) == 0 || vcExists(state, manifestFileName) {
			continue
		}
		current := map[string]bool{}
		signature := fmt.Sprintf("current=%v:%s:%s", pre.hasCurrent, pre.curName, pre.curPhase)
		for _, f := range pre.files {
			signature += "|" + f.Path
		}
		if seen[signature] {
			continue
		}
		seen[signature] = true
		j.damageStates++
		j.sequences++
		if pre.hasCurrent {
			prefix := "graphs/" + graphDirectoryName(pre.curName) + "/"
			for _, f := range pre.files {
				if strings.HasPrefix(f.Path, prefix) {
					current[f.Path] = true
				}
			}
		}
		for _, victim := range pre.files {
			original, err := os.ReadFile(filepath.Join(state, filepath.FromSlash(victim.Path)))
			if err != nil {
				j.fail("%s: committed fragment %s unreadable: %s", desc1, victim.Path, vcNormErr(state, err))
				continue
			}
			where := "fragment-of-completed-graph"
			if current[victim.Path] {
				where = "fragment-of-graph-in-progress"
			}
			tried := map[string]bool{}
			for _, damage := range vcDamages() {
				if j.aborted {
					return
				}
				damaged := damage.apply(original)
				if len(damaged) != len(original) || string(damaged) == string(original) || tried[string(damaged)] {
					continue
				}
				tried[string(damaged)] = true
				desc := fmt.Sprintf("%s (state: %d committed fragments, phase %q of %q), then %s of %s (%d bytes, %s), then resume", f1, len(pre.files), pre.curPhase, pre.curName, damage.name, victim.Path, len(original), where)
				if err := vcCopyTree(state, work); err != nil {
					j.fail("%s: harness copy failed: %v", desc, err)
					continue
				}
				if err := os.WriteFile(filepath.Join(work, filepath.FromSlash(victim.Path)), damaged, 0o600); err != nil {
					j.fail("%s: harness write failed: %v", desc, err)
					continue
				}
				j.damageRuns++
				out := j.dump(work, data, j.cfg.options(), true, vcFault{})
				if out.harnessErr != "" || out.crashed {
					j.fail("%s: %s crashed=%v", desc, out.harnessErr, out.crashed)
					continue
				}
				if out.err == nil {
					// allowed only if what was published is right: every manifest checksum matches the file on disk
					// and the data equals the reference (i.e. the code repaired the fragment)
					problems := vcCheckComplete(work, j.cfg, data, j.reference(data), false)
					if len(problems) == 0 {
						j.damageClean++
						j.completed++
						continue
					}
					if len(problems) > 3 {
						problems = problems[:3]
					}
					j.deviate("damaged-fragment-accepted:"+where, "%s: resume returned nil over a damaged committed fragment and published a dump that is not right: %s", desc, strings.Join(problems, "; "))
					continue
				}
				j.damageRefused++
				j.refuse(work, out.err)
				if vcExists(work, manifestFileName) {
					j.fail("%s: refused (%s) but a manifest was written", desc, vcNormErr(work, out.err))
				}
				others := pre
				others.files = nil
				for _, f := range pre.files {
					if f.Path != victim.Path {
						others.files = append(others.files, f)
					}
				}
				for _, p := range vcIntact(work, others) {
					j.fail("%s: refused (%s) and %s", desc, vcNormErr(work, out.err), p)
				}
			}
		}
	}
}

// vcPart is what one job reports (child process -> parent, as JSON).
type vcPart struct {
	Cases, Sequences, Refused, Completed, FailCount, Injected int
	StrayRuns, StrayRefused, ToleratedCompleted               int
	Failures                                                  []string
	Reasons, DevHits                                          map[string]int
	Stuck                                                     []string
	CancelRuns, CancelCompleted, CancelResumes                int
	DamageStates, DamageRuns, DamageRefused, DamageClean      int
	IdentityRuns, RecordedRuns                                map[string]int
}

func (j *vcJob) part_() vcPart {
	p := vcPart{Cases: j.cases, Sequences: j.sequences, Refused: j.refused, Completed: j.completed, FailCount: j.failCount, Injected: j.injected,
		Failures: j.failures, Reasons: j.reasons, DevHits: j.devHits,
		StrayRuns: j.strayRuns, StrayRefused: j.strayRefused, ToleratedCompleted: j.toleratedCompleted,
		CancelRuns: j.cancelRuns, CancelCompleted: j.cancelCompleted, CancelResumes: j.cancelResumes,
		DamageStates: j.damageStates, DamageRuns: j.damageRuns, DamageRefused: j.damageRefused, DamageClean: j.damageClean,
		IdentityRuns: j.identityRuns, RecordedRuns: j.recordedRuns}
	for k := range j.stuck {
		p.Stuck = append(p.Stuck, k)
	}
	return p
}

var vcInProcess sync.Mutex // the hook state is per process: in-process jobs run one at a time

func (j *vcJob) runInProcess() vcPart {
	vcInProcess.Lock()
	defer vcInProcess.Unlock()
	func() {
		defer func() {
			if r := recover(); r != nil {
				j.fail("harness panic: %v", r)
			}
		}()
		j.run()
	}()
	return j.part_()
}

const vcPartPrefix = "VERIF-C19-PART "

// runChild runs job number idx in a child process (this test binary, same test, VERIF_C19_JOB=idx).
func vcRunChild(idx int, root string) (vcPart, error) {
	ctx, cancel := context.WithTimeout(context.Background(), 25*time.Minute)
	defer cancel()
	cmd := exec.CommandContext(ctx, os.Args[0], "-test.run=^TestVerifBoundedCrashResume$", "-test.count=1", "-test.timeout=0")
	cmd.Env = append(os.Environ(), "VERIF_C19_JOB="+strconv.Itoa(idx), "VERIF_C19_ROOT="+root, "GOMAXPROCS=2")
	output, err := cmd.CombinedOutput()
	for _, line := range strings.Split(string(output), "\n") {
		if strings.HasPrefix(line, vcPartPrefix) {
			var part vcPart
			if jsonErr := json.Unmarshal([]byte(strings.TrimPrefix(line, vcPartPrefix)), &part); jsonErr != nil {
				return vcPart{}, jsonErr
			}
			return part, nil
		}
	}
	tail := string(output)
	if len(tail) > 400 {
		tail = tail[len(tail)-400:]
	}
	return vcPart{}, fmt.Errorf("child reported nothing (%v): %s", err, tail)
}

// ---------------------------------------------------------------- driver

func TestVerifBoundedCrashResume(t *testing.T) {
	bound := os.Getenv("VERIF_BOUND")
	if bound != "2" {
		bound = "1"
	}
	seed, _ := strconv.ParseInt(os.Getenv("VERIF_SEED"), 10, 64)

	single := func(name string, nodes, edges int) *vcData {
		return &vcData{name: name, order: []string{"g"}, graphs: map[string]*vcGraphData{"g": vcMakeGraph(nodes, edges)}}
	}
	g3x2, empty, one := single("g3n2e", 3, 2), single("empty", 0, 0), single("g1n0e", 1, 0)
	two := &vcData{name: "alpha4n3e+beta3n2e", order: []string{"alpha", "beta"}, graphs: map[string]*vcGraphData{"alpha": vcMakeGraph(4, 3), "beta": vcMakeGraph(3, 2)}}

	// extension: graphs whose node and edge properties are all scrubbed (item 6), small two-graph databases (item 7)
	rich := &vcData{name: "rich3n3e", order: []string{"g"}, graphs: map[string]*vcGraphData{"g": vcMakeRichGraph(3, 3, 0)}}
	twoSmall := &vcData{name: "a3n2e+b2n1e", order: []string{"a", "b"}, graphs: map[string]*vcGraphData{"a": vcMakeGraph(3, 2), "b": vcMakeGraph(2, 1)}}
	twoRich := &vcData{name: "richA3n3e+richB3n3e", order: []string{"ra", "rb"}, graphs: map[string]*vcGraphData{"ra": vcMakeRichGraph(3, 3, 1), "rb": vcMakeRichGraph(3, 3, 2)}}
	extension := []vcConfig{
		{data: rich, shard: 1, batch: 1, codec: CompressionNone, scrub: true},
		{data: rich, shard: 1, batch: 2, codec: CompressionNone, scrub: true},
		{data: twoSmall, shard: 1, batch: 1, codec: CompressionNone},
		{data: twoSmall, shard: 2, batch: 2, codec: CompressionNone},
		{data: twoRich, shard: 1, batch: 2, codec: CompressionNone, scrub: true},
		// third extension, item 10: the interrupted dump itself uses a rules file (resumes with the same content must
		// complete, resumes with another file or with none must be refused)
		{data: g3x2, shard: 1, batch: 2, codec: CompressionNone, scrub: true, rules: vcRulesPreserveName},
	}
	const thirdText = "; THIRD EXTENSION: + 1 configuration whose dump uses a scrub rules file (1 graph 3 nodes 2 edges, shard 1, batch 2); first and second interruptions additionally: the context given to Dump is CANCELLED at the k-th hook invocation (first: every k, second: as for crashes) over a fake database that honours the context - the resume afterwards must complete; after every interruption the fragments the checkpoint on disk lists must be on disk unchanged; must-refuse resumes additionally: another scrub rules file content with the same mode and salt (3 files) and, for EVERY field of dumpCheckpointIdentity (enumerated by reflection), the recorded value changed in the checkpoint; per configuration one DAMAGE job: from the first strict crash reaching each distinct committed state, every committed fragment (also of graphs already complete) x {first, middle, last byte xor 0x01, zero-filled at the same length}, then a resume that must refuse or publish a correct dump"
	const extensionText = "; EXTENSION: + scrub=full over 1 graph 3 nodes 3 edges with node and edge properties of all four scrub actions (shard 1 x batch {1,2}), + 2 graphs (3 nodes 2 edges; 2 nodes 1 edge) x (shard,batch) {(1,1),(2,2)}, + scrub=full over 2 such scrubbed graphs (shard 1, batch 2)%s; from every interrupted state additionally ~45-60 resumes with one unaccounted entry of an unusual name each (dot file, swap file, case / extension variant of a fragment name, zero-length file, empty directory, directory or symbolic link named like a fragment, in root, graphs/, first and last graph directory; directory / link at the next fragment path; foreign temp names) that must be refused, and the three documented temp names holding garbage / as link / as directory; every completed resume: manifest.json compared field by field with the uninterrupted one, directories and links listed too"

	var configs []vcConfig
	var boundText string
	if bound == "1" {
		boundText = "databases {1 graph 3 nodes 2 edges; empty graph; single node} x shard {1,2} x batch {1,2} x codec none (+1 scrub=full config) x crash models {unwind, strict}; first interruption: every hook invocation and every database read (error before / after one record); second interruption during resume at {1,2,3,last} hook invocation / read; 20-odd must-refuse resumes from every interrupted state"
		for _, d := range []*vcData{g3x2, empty, one} {
			for _, shard := range []int{1, 2} {
				for _, batch := range []int{1, 2} {
					configs = append(configs, vcConfig{data: d, shard: shard, batch: batch, codec: CompressionNone})
				}
			}
		}
		configs = append(configs, vcConfig{data: g3x2, shard: 2, batch: 2, codec: CompressionNone, scrub: true})
		configs = append(configs, extension...)
		boundText += fmt.Sprintf(extensionText, "") + thirdText
	} else {
		boundText = "databases {2 graphs (4 nodes 3 edges; 3 nodes 2 edges); 1 graph 3 nodes 2 edges; empty graph; single node} x shard {1,2,3} x batch {1,2} x codec {none,gzip} (+ scrub=full configs) x crash models {unwind, strict}; first interruption: every hook invocation and every database read (error before / after one record); second interruption during resume at EVERY hook invocation / read; 20-odd must-refuse resumes from every interrupted state"
		for _, d := range []*vcData{two, g3x2, empty, one} {
			for _, shard := range []int{1, 2, 3} {
				for _, batch := range []int{1, 2} {
					for _, codec := range []CompressionCodec{CompressionNone, CompressionGzip} {
						configs = append(configs, vcConfig{data: d, shard: shard, batch: batch, codec: codec})
					}
				}
			}
		}
		configs = append(configs,
			vcConfig{data: two, shard: 2, batch: 2, codec: CompressionNone, scrub: true},
			vcConfig{data: two, shard: 3, batch: 1, codec: CompressionGzip, scrub: true},
			vcConfig{data: g3x2, shard: 2, batch: 2, codec: CompressionNone, scrub: true})
		configs = append(configs, extension...)
		configs = append(configs,
			vcConfig{data: rich, shard: 1, batch: 1, codec: CompressionGzip, scrub: true},
			vcConfig{data: rich, shard: 2, batch: 1, codec: CompressionNone, scrub: true},
			vcConfig{data: twoRich, shard: 1, batch: 1, codec: CompressionGzip, scrub: true},
			vcConfig{data: twoRich, shard: 2, batch: 3, codec: CompressionNone, scrub: true})
		boundText += fmt.Sprintf(extensionText, ", + the scrubbed graph with gzip (shard 1, batch 1) and shard 2, + the two scrubbed graphs with gzip (shard 1, batch 1) and (shard 2, batch 3)") + thirdText
	}

	// jobs: configuration x crash model x slice of the first interruptions (big databases are split so that
	// the work spreads over the child processes). The list is a pure function of the bound.
	var jobs []*vcJob
	for _, cfg := range configs {
		entities := 0
		for _, g := range cfg.data.graphs {
			entities += len(g.nodes) + len(g.edges)
		}
		parts := 1 + entities/3
		if bound == "2" {
			parts = 1 + entities
		}
		for _, strict := range []bool{false, true} {
			for part := 0; part < parts; part++ {
				jobs = append(jobs, &vcJob{cfg: cfg, strict: strict, full: bound == "2", seed: seed, part: part, parts: parts})
			}
		}
	}
	// item 9: one damage job per configuration (strict crash model: the state is the one at the crash point)
	damageJobs := 0
	for _, cfg := range configs {
		cfg.mode = "damage"
		jobs = append(jobs, &vcJob{cfg: cfg, strict: true, full: bound == "2", seed: seed, part: 0, parts: 1})
		damageJobs++
	}

	previousLogger := slog.Default()
	slog.SetDefault(slog.New(slog.NewTextHandler(io.Discard, &slog.HandlerOptions{Level: slog.Level(100)})))
	defer slog.SetDefault(previousLogger)
	previousHook := VerifCrashHook
	VerifCrashHook = vcHook
	defer func() { VerifCrashHook = previousHook }()

	// child process: run the one job it was given and report it
	if child := os.Getenv("VERIF_C19_JOB"); child != "" {
		idx, err := strconv.Atoi(child)
		if err != nil || idx < 0 || idx >= len(jobs) {
			t.Fatalf("bad VERIF_C19_JOB %q", child)
		}
		job := jobs[idx]
		job.root = filepath.Join(os.Getenv("VERIF_C19_ROOT"), fmt.Sprintf("job%04d", idx))
		out, _ := json.Marshal(job.runInProcess())
		fmt.Println(vcPartPrefix + string(out))
		return
	}

	base := ""
	if info, err := os.Stat("/dev/shm"); err == nil && info.IsDir() {
		base = "/dev/shm"
	}
	root, err := os.MkdirTemp(base, "verif-c19-")
	if err != nil {
		root, err = os.MkdirTemp("", "verif-c19-")
	}
	if err != nil {
		t.Fatalf("temp dir: %v", err)
	}
	defer os.RemoveAll(root)

	order := make([]int, len(jobs))
	for i := range order {
		order[i] = i
	}
	if seed != 0 {
		rand.New(rand.NewSource(seed)).Shuffle(len(order), func(a, b int) { order[a], order[b] = order[b], order[a] })
	}
	sort.SliceStable(order, func(a, b int) bool { // expensive jobs first
		size := func(j *vcJob) int {
			n := 0
			for _, g := range j.cfg.data.graphs {
				n += len(g.nodes) + len(g.edges)
			}
			return n * 10 / j.cfg.shard
		}
		return size(jobs[order[a]]) > size(jobs[order[b]])
	})
	parts := make([]vcPart, len(jobs))
	fallbacks := 0
	var fallbackMu sync.Mutex
	queue := make(chan int)
	var wg sync.WaitGroup
	workers := runtime.NumCPU()
	if workers > len(jobs) {
		workers = len(jobs)
	}
	for w := 0; w < workers; w++ {
		wg.Add(1)
		go func() {
			defer wg.Done()
			for idx := range queue {
				part, err := vcRunChild(idx, root)
				if err != nil {
					// no usable child process: run the job here (serialised)
					fallbackMu.Lock()
					fallbacks++
					fallbackMu.Unlock()
					jobs[idx].root = filepath.Join(root, fmt.Sprintf("local%04d", idx))
					part = jobs[idx].runInProcess()
				}
				parts[idx] = part
			}
		}()
	}
	for _, idx := range order {
		queue <- idx
	}
	close(queue)
	wg.Wait()

	cases, sequences, refused, failCount, completed, injected := 0, 0, 0, 0, 0, 0
	strayRuns, strayRefused, toleratedCompleted := 0, 0, 0
	reasons, devHits, stuckSet := map[string]int{}, map[string]int{}, map[string]bool{}
	failures := []string{}
	var third vcPart
	third.IdentityRuns, third.RecordedRuns = map[string]int{}, map[string]int{}
	for _, part := range parts {
		third.CancelRuns, third.CancelCompleted, third.CancelResumes = third.CancelRuns+part.CancelRuns, third.CancelCompleted+part.CancelCompleted, third.CancelResumes+part.CancelResumes
		third.DamageStates, third.DamageRuns = third.DamageStates+part.DamageStates, third.DamageRuns+part.DamageRuns
		third.DamageRefused, third.DamageClean = third.DamageRefused+part.DamageRefused, third.DamageClean+part.DamageClean
		for k, v := range part.IdentityRuns {
			third.IdentityRuns[k] += v
		}
		for k, v := range part.RecordedRuns {
			third.RecordedRuns[k] += v
		}
		cases, sequences, refused, failCount = cases+part.Cases, sequences+part.Sequences, refused+part.Refused, failCount+part.FailCount
		completed, injected = completed+part.Completed, injected+part.Injected
		strayRuns, strayRefused, toleratedCompleted = strayRuns+part.StrayRuns, strayRefused+part.StrayRefused, toleratedCompleted+part.ToleratedCompleted
		for _, k := range part.Stuck {
			stuckSet[k] = true
		}
		for k, v := range part.Reasons {
			reasons[k] += v
		}
		for k, v := range part.DevHits {
			devHits[k] += v
		}
		failures = append(failures, part.Failures...)
	}
	// item 10: EVERY field of the run identity was varied - on the option side where an option feeds it, and on the
	// recorded side in any case (a field added to dumpCheckpointIdentity later has no option-side entry here: failure)
	for _, field := range vcIdentityFields() {
		if _, hasOption := vcOptionSideFields[field.goName]; hasOption {
			if third.IdentityRuns[field.goName] == 0 {
				failures = append(failures, fmt.Sprintf("[harness] identity field %s (%s): no must-refuse resume with only that option changed was run", field.goName, vcOptionSideFields[field.goName]))
				failCount++
			}
		} else if field.goName != "ScrubRulesVersion" {
			failures = append(failures, fmt.Sprintf("[harness] dumpCheckpointIdentity has a field %s (json %q) the harness has no option-side variation for: add one", field.goName, field.jsonKey))
			failCount++
		}
		if third.RecordedRuns[field.goName] == 0 {
			failures = append(failures, fmt.Sprintf("[harness] identity field %s: no must-refuse resume with only its recorded value changed was run", field.goName))
			failCount++
		}
	}
	sort.Strings(failures)
	if len(failures) > 5 {
		failures = failures[:5]
	}
	type reasonCount struct {
		reason string
		count  int
	}
	var ranked []reasonCount
	for k, v := range reasons {
		ranked = append(ranked, reasonCount{k, v})
	}
	sort.Slice(ranked, func(a, b int) bool {
		if ranked[a].count != ranked[b].count {
			return ranked[a].count > ranked[b].count
		}
		return ranked[a].reason < ranked[b].reason
	})
	refusalReasons := []string{}
	for i := 0; i < len(ranked) && i < 5; i++ {
		refusalReasons = append(refusalReasons, fmt.Sprintf("%s (x%d)", ranked[i].reason, ranked[i].count))
	}
	stuck := []string{}
	for k := range stuckSet {
		stuck = append(stuck, k)
	}
	sort.Strings(stuck)
	res := map[string]any{
		"name": "crash-resume", "bound": boundText, "cases": cases, "exhaustive": true, "failures": failures,
		"failure_count": failCount, "configs": len(configs), "jobs": len(jobs), "jobs_run_in_process": fallbacks, "sequences": sequences,
		"refused": refused, "refusal_reasons": refusalReasons, "distinct_refusal_reasons": len(reasons),
		"known_deviation_hits": devHits, "resumes_completed": completed, "resumes_failed_by_injected_read_error": injected, "first_interruptions_after_which_resume_is_refused": stuck,
		"damage_jobs": damageJobs, "dumps_cancelled_at_a_hook": third.CancelRuns, "dumps_cancelled_that_still_returned_nil": third.CancelCompleted, "resumes_after_a_cancellation": third.CancelResumes,
		"damage_states": third.DamageStates, "resumes_over_damaged_fragment": third.DamageRuns, "resumes_over_damaged_fragment_refused": third.DamageRefused, "resumes_over_damaged_fragment_completed_correctly": third.DamageClean,
		"identity_fields_option_changed": third.IdentityRuns, "identity_fields_recorded_value_changed": third.RecordedRuns,
		"resumes_with_unusual_extra_entry": strayRuns, "resumes_with_unusual_extra_entry_refused": strayRefused, "resumes_with_tolerated_temp_name_completed": toleratedCompleted,
	}
	out, _ := json.Marshal(res)
	fmt.Println("BOUNDED-RESULT " + string(out))
	if len(failures) > 0 {
		t.Fail()
	}
}
