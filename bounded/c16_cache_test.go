package cache

// Bounded stand-in for C16 (labelled bounded, never counted as proved). Injected in-package with go test -overlay.
//
// WHAT IS ENUMERATED (VERIF_BOUND "1" = quick, "2" = thorough; VERIF_SEED only permutes the order in which
// shards / child operations / concurrent configurations are visited, never what is visited)
//
//   Sequential part. For both implementations
//        NewSieve[int,int](capacity)  and  NewNonExpiringMapCache[int,int](capacity)
//   and every capacity in {-1, 0, 1, 2, 3}: EVERY sequence of operations of length 0..L (L = 6 at bound "1",
//   L = 7 at bound "2") over the 12-letter alphabet {Put(k,v), Get(k), Delete(k) : k in {1,2,3,4}}. The value
//   of a Put at (0-based) step i on key k is 10*(i+1)+k: it is non-zero, names its key in the last digit and
//   its step in the others, so a zero value, a stale value and a value of another key are all distinguishable.
//   Every sequence is executed from a FRESH cache through the public Cache interface (no cloning of
//   representation: a sequence of length n costs n real calls), the checks below run after EVERY step, and the
//   sequence is closed by a sweep Get(1..4). One "case" = one (implementation, capacity, sequence) triple.
//
//   Concurrent part. Sieve of capacity 2 and 3, W in {2,4,8} goroutines, R rounds (R = 30 at bound "1",
//   200 at bound "2"); goroutine w of round r runs the fixed 200-operation script vcScript(W, w, r) (a pure
//   function of its arguments: splitmix64 stream; 40% Put / 40% Get / 20% Delete over keys {1,2,3,4}, with
//   runtime.Gosched() at script-determined positions) after a common start barrier. A Put of goroutine w at
//   step i on key k writes ((w+1)*1000+(i+1))*10+k, so every written value names its writer. One "case" = one
//   (capacity, W, round) run.
//
// ORACLE (taken from the statement of C16, not from the code; eviction CHOICE is unspecified, so the oracle is
// the set of acceptable successor states of the observed state, never a re-implementation of SIEVE)
//
//   The harness keeps, per key, last[k] = the value of the last Put(k,.) of the sequence that is not followed
//   by a Delete(k) (none if there is no such Put). The set of keys the cache holds (and their values) is
//   observed after every step by reading the store map in-package (a Get would set SIEVE's visited bit and so
//   change which later states are reachable); that observation is tied to the public API by checking every
//   Get of every sequence, and the closing sweep, against it. With P / Q the observed key sets before / after
//   a step, and limit = max(capacity,1) for Sieve (constructor doc: "If capacity is less than or equal to zero,
//   a capacity of one is used") and limit = max(capacity,0) for the non-expiring map (it has no eviction: a Put
//   of a NEW key when size >= capacity is refused and leaves the cache unchanged; with capacity <= 0 it
//   therefore never stores anything; a Put of a key already present always updates):
//     always     |Q| <= limit;  Stats().Size() == |Q|;  every k in Q has value last[k] and last[k] exists
//                (never a value of another key, a superseded value, or a deleted one);
//                Stats().Hits()/Misses() == number of Gets so far that had to hit / miss;
//     fresh      Q is empty, all counters zero, Sieve Stats().Capacity == max(capacity,1);
//     Put(k,v)   Sieve: k in Q (so an immediate Get(k) is (v,true) - that Get is itself one of the enumerated
//                continuations); no key other than k appears; at most ONE key of P disappears, and none
//                disappears when k was in P or |P| < limit.
//                Map: k in P -> Q == P; k not in P and |P| < capacity -> Q == P+{k}; otherwise Q == P.
//     Get(k)     returns (last[k], true) if k in P, (0,false) otherwise; Q == P. Hence (0,false) only for a key
//                never put, deleted, refused or evicted, and - because only Put(k) can add k - a key once
//                reported absent stays absent until the next Put of it.
//     Delete(k)  Q == P - {k} (k absent afterwards, no other key changes).
//     sweep      Get(k) for k = 1..4 agrees with Q and last, the number of present keys == Stats().Size(),
//                and Q is unchanged by the sweep.
//     represent. Sieve: queue.Len() == number of queue elements == len(store); every queue element carries an
//                int key that is in the store, no key twice, and that store entry's element IS this queue
//                element (hence every store entry's element is in the queue); entry.key == its map key; hand is
//                nil or an element of the queue. Map: len(store) == number of keys held. Both: no key outside
//                {1..4} in the store.
//     no panic (recovered and reported with the sequence and step), no hang (watchdog: a worker that makes no
//     progress for 20 s is reported with the sequence it is executing).
//
//   Concurrent part - only checks that hold for EVERY schedule of a linearizable implementation:
//     during the run   a Get(k) that returns ok must return a value some goroutine Puts on key k in this round;
//                      if that value was written by the SAME goroutine, it must be that goroutine's latest
//                      write to k before the Get (program order is part of every linearization, so its own
//                      later Put/Delete supersedes it for good); a Get that returns !ok returns 0;
//     afterwards       (quiescent) the representation invariants above; Stats().Size() == number of keys held
//                      <= capacity; each held key's value was Put on that key by some goroutine and is not
//                      followed by a later Put/Delete of that key in the same goroutine's script;
//                      Hits()+Misses() == number of Gets issued and Hits() == number of Gets that returned ok;
//                      then, sequentially, Put(k,x);Get(k) == (x,true) for k = 1..4 with the invariants, and
//                      Delete(1..4) leaves an empty cache with Size() == 0;
//     no panic in any goroutine, all goroutines finish within 20 s.
//   (The race detector is not available in this tool chain configuration (CGO_ENABLED=0); data races are
//   outside this harness.)

import (
	"encoding/json"
	"fmt"
	"math/bits"
	"math/rand"
	"os"
	"runtime"
	"runtime/debug"
	"sort"
	"strconv"
	"strings"
	"sync"
	"sync/atomic"
	"testing"
	"time"
)

// knownDeviations lists "<impl> cap=<capacity> <check class>" prefixes for which the UNCHANGED tree violates
// the oracle above. A failure whose key starts with one of these is not reported; every other input and every
// other check stays active. It is empty: the unchanged tree satisfies the oracle on the whole scope.
var knownDeviations = []string{}

const (
	vcKeys     = 4
	vcAlphabet = 3 * vcKeys // op code = kind*4 + (key-1); kind 0 Put, 1 Get, 2 Delete
	vcSieve    = 0
	vcMap      = 1
)

var vcImplName = [2]string{"sieve", "nemap"}

type vcCfg struct {
	impl     int
	capacity int
}

func vcPutValue(step int, key int) int { return 10*(step+1) + key }

func vcSeqString(seq []uint8) string {
	var sb strings.Builder
	sb.WriteByte('[')
	for i, op := range seq {
		if i > 0 {
			sb.WriteByte(' ')
		}
		key := int(op%vcKeys) + 1
		switch op / vcKeys {
		case 0:
			fmt.Fprintf(&sb, "Put(%d,%d)", key, vcPutValue(i, key))
		case 1:
			fmt.Fprintf(&sb, "Get(%d)", key)
		default:
			fmt.Fprintf(&sb, "Delete(%d)", key)
		}
	}
	sb.WriteByte(']')
	return sb.String()
}

func vcMaskString(m uint8) string {
	var ks []string
	for k := 1; k <= vcKeys; k++ {
		if m&(1<<uint(k)) != 0 {
			ks = append(ks, strconv.Itoa(k))
		}
	}
	return "{" + strings.Join(ks, ",") + "}"
}

// vcPeekSieve reads the key set / values of a Sieve without going through Get, and checks the representation.
func vcPeekSieve(s *Sieve[int, int], vals *[vcKeys + 1]int) (mask uint8, rep string) {
	if s.store == nil || s.queue == nil {
		return 0, "store or queue is nil"
	}
	var entries [vcKeys + 1]*entry[int, int]
	n := 0
	for k := 1; k <= vcKeys; k++ {
		e, ok := s.store[k]
		if !ok {
			continue
		}
		n++
		if e == nil {
			return mask, fmt.Sprintf("store[%d] is a nil entry", k)
		}
		mask |= 1 << uint(k)
		vals[k] = e.value
		entries[k] = e
		if e.key != k {
			return mask, fmt.Sprintf("store[%d].key == %d", k, e.key)
		}
		if e.element == nil {
			return mask, fmt.Sprintf("store[%d].element is nil", k)
		}
	}
	if len(s.store) != n {
		return mask, fmt.Sprintf("store holds %d entries, only %d of them under keys 1..%d", len(s.store), n, vcKeys)
	}
	qn := 0
	var qmask uint8
	handSeen := s.hand == nil
	for el := s.queue.Front(); el != nil; el = el.Next() {
		qn++
		if qn > 2*vcKeys {
			return mask, fmt.Sprintf("queue walk exceeds %d elements", 2*vcKeys)
		}
		if el == s.hand {
			handSeen = true
		}
		key, ok := el.Value.(int)
		if !ok {
			return mask, fmt.Sprintf("queue element %d carries a %T, not a key", qn, el.Value)
		}
		if key < 1 || key > vcKeys || mask&(1<<uint(key)) == 0 {
			return mask, fmt.Sprintf("queue element %d carries key %d which is not in the store %s", qn, key, vcMaskString(mask))
		}
		if qmask&(1<<uint(key)) != 0 {
			return mask, fmt.Sprintf("key %d is in the queue twice", key)
		}
		qmask |= 1 << uint(key)
		if entries[key].element != el {
			return mask, fmt.Sprintf("store[%d].element is not the queue element that carries key %d", key, key)
		}
	}
	if qn != s.queue.Len() {
		return mask, fmt.Sprintf("queue.Len() == %d but the queue has %d elements", s.queue.Len(), qn)
	}
	if qn != n {
		return mask, fmt.Sprintf("queue length %d != store size %d", qn, n)
	}
	if !handSeen {
		return mask, "hand is neither nil nor an element of the queue"
	}
	return mask, ""
}

func vcPeekMap(s *NonExpiringMapCache[int, int], vals *[vcKeys + 1]int) (mask uint8, rep string) {
	if s.store == nil {
		return 0, "store is nil"
	}
	n := 0
	for k := 1; k <= vcKeys; k++ {
		if v, ok := s.store[k]; ok {
			n++
			mask |= 1 << uint(k)
			vals[k] = v
		}
	}
	if len(s.store) != n {
		return mask, fmt.Sprintf("store holds %d entries, only %d of them under keys 1..%d", len(s.store), n, vcKeys)
	}
	return mask, ""
}

// vcRun executes one sequence on a fresh cache and checks every step.
type vcRun struct {
	cfg   vcCfg
	limit int
	c     Cache[int, int]
	sv    *Sieve[int, int]
	ne    *NonExpiringMapCache[int, int]
	last  [vcKeys + 1]int  // model: value of the last Put(k) not followed by Delete(k)
	live  [vcKeys + 1]bool // model: such a Put exists
	pres  uint8            // observed key set after the previous step
	gets  int64
	hits  int64
	step  int // step being executed, for panic reports (-1: constructor, len(seq): closing sweep)
}

func (r *vcRun) peek(vals *[vcKeys + 1]int) (uint8, string) {
	if r.cfg.impl == vcSieve {
		return vcPeekSieve(r.sv, vals)
	}
	return vcPeekMap(r.ne, vals)
}

// common checks on the state observed after a step; returns (class, message) or ("","")
func (r *vcRun) checkState(mask uint8, vals *[vcKeys + 1]int, rep string) (string, string) {
	if rep != "" {
		return "representation", "representation invariant broken: " + rep
	}
	held := bits.OnesCount8(mask)
	if sz := r.c.Stats().Size(); sz != int64(held) {
		return "size-stat", fmt.Sprintf("Stats().Size() == %d but the cache holds %d keys %s", sz, held, vcMaskString(mask))
	}
	if held > r.limit {
		return "capacity", fmt.Sprintf("cache holds %d keys %s, more than its capacity %d", held, vcMaskString(mask), r.limit)
	}
	for k := 1; k <= vcKeys; k++ {
		if mask&(1<<uint(k)) == 0 {
			continue
		}
		if !r.live[k] {
			return "value", fmt.Sprintf("key %d is held with value %d although it was never put or its last put was deleted", k, vals[k])
		}
		if vals[k] != r.last[k] {
			return "value", fmt.Sprintf("key %d is held with value %d, expected the value %d of its most recent put", k, vals[k], r.last[k])
		}
	}
	st := r.c.Stats()
	if h, m := st.Hits(), st.Misses(); h != r.hits || m != r.gets-r.hits {
		return "hit-miss", fmt.Sprintf("Stats() hits/misses == %d/%d, expected %d/%d after %d Gets", h, m, r.hits, r.gets-r.hits, r.gets)
	}
	return "", ""
}

// run returns the failing step (or -2 if none), the check class and the message.
func (r *vcRun) run(seq []uint8) (failStep int, class string, msg string) {
	failStep = -2
	defer func() {
		if p := recover(); p != nil {
			failStep, class, msg = r.step, "panic", fmt.Sprintf("panic: %v", p)
		}
	}()
	r.step = -1
	r.last, r.live, r.pres, r.gets, r.hits = [vcKeys + 1]int{}, [vcKeys + 1]bool{}, 0, 0, 0
	r.sv, r.ne = nil, nil
	var ok bool
	if r.cfg.impl == vcSieve {
		r.c = NewSieve[int, int](r.cfg.capacity)
		if r.sv, ok = r.c.(*Sieve[int, int]); !ok || r.sv == nil {
			return -1, "constructor", fmt.Sprintf("NewSieve returned a %T", r.c)
		}
		if got := r.c.Stats().Capacity; got != r.limit {
			return -1, "constructor", fmt.Sprintf("NewSieve(%d).Stats().Capacity == %d, expected %d", r.cfg.capacity, got, r.limit)
		}
	} else {
		r.c = NewNonExpiringMapCache[int, int](r.cfg.capacity)
		if r.ne, ok = r.c.(*NonExpiringMapCache[int, int]); !ok || r.ne == nil {
			return -1, "constructor", fmt.Sprintf("NewNonExpiringMapCache returned a %T", r.c)
		}
	}
	var vals [vcKeys + 1]int
	mask, rep := r.peek(&vals)
	if cl, m := r.checkState(mask, &vals, rep); m != "" {
		return -1, cl, "fresh cache: " + m
	}
	if mask != 0 {
		return -1, "constructor", "fresh cache holds keys " + vcMaskString(mask)
	}

	for i, op := range seq {
		r.step = i
		key := int(op%vcKeys) + 1
		bit := uint8(1) << uint(key)
		P := r.pres
		var gotV int
		var gotOK bool
		kind := op / vcKeys
		switch kind {
		case 0:
			v := vcPutValue(i, key)
			r.c.Put(key, v)
			r.last[key], r.live[key] = v, true
		case 1:
			gotV, gotOK = r.c.Get(key)
			r.gets++
			if P&bit != 0 {
				r.hits++
			}
		default:
			r.c.Delete(key)
			r.live[key] = false
		}
		Q, rep := r.peek(&vals)
		if cl, m := r.checkState(Q, &vals, rep); m != "" {
			return i, cl, m
		}
		switch kind {
		case 0:
			if r.cfg.impl == vcSieve {
				if Q&bit == 0 {
					return i, "put-visible", fmt.Sprintf("key %d is absent right after its Put (held before %s, after %s)", key, vcMaskString(P), vcMaskString(Q))
				}
				if app := Q &^ P &^ bit; app != 0 {
					return i, "put-others", fmt.Sprintf("keys %s appeared on a Put of key %d (held before %s, after %s)", vcMaskString(app), key, vcMaskString(P), vcMaskString(Q))
				}
				lost := P &^ Q
				if bits.OnesCount8(lost) > 1 {
					return i, "put-evicts", fmt.Sprintf("%d keys %s disappeared on one Put (held before %s, after %s)", bits.OnesCount8(lost), vcMaskString(lost), vcMaskString(P), vcMaskString(Q))
				}
				if lost != 0 && (P&bit != 0 || bits.OnesCount8(P) < r.limit) {
					return i, "put-evicts", fmt.Sprintf("key %s disappeared on a Put that needed no room (held before %s, capacity %d, key present before: %v)", vcMaskString(lost), vcMaskString(P), r.limit, P&bit != 0)
				}
			} else {
				want := P
				if P&bit == 0 && bits.OnesCount8(P) < r.cfg.capacity {
					want = P | bit
				}
				if Q != want {
					return i, "put-map", fmt.Sprintf("held before %s, after %s, expected %s (capacity %d)", vcMaskString(P), vcMaskString(Q), vcMaskString(want), r.cfg.capacity)
				}
			}
		case 1:
			wantV, wantOK := 0, false
			if P&bit != 0 {
				wantV, wantOK = r.last[key], true
			}
			if gotV != wantV || gotOK != wantOK {
				return i, "get-result", fmt.Sprintf("Get(%d) returned (%d,%v), expected (%d,%v) (held before %s)", key, gotV, gotOK, wantV, wantOK, vcMaskString(P))
			}
			if Q != P {
				return i, "get-changes", fmt.Sprintf("a Get changed the held keys from %s to %s", vcMaskString(P), vcMaskString(Q))
			}
		default:
			if Q != P&^bit {
				return i, "delete", fmt.Sprintf("held before %s, after %s, expected %s", vcMaskString(P), vcMaskString(Q), vcMaskString(P&^bit))
			}
		}
		r.pres = Q
	}

	// closing sweep through the public API
	r.step = len(seq)
	present := 0
	for k := 1; k <= vcKeys; k++ {
		gotV, gotOK := r.c.Get(k)
		r.gets++
		wantV, wantOK := 0, false
		if r.pres&(1<<uint(k)) != 0 {
			wantV, wantOK = r.last[k], true
			r.hits++
		}
		if gotOK {
			present++
		}
		if gotV != wantV || gotOK != wantOK {
			return len(seq), "sweep", fmt.Sprintf("closing Get(%d) returned (%d,%v), expected (%d,%v) (held %s)", k, gotV, gotOK, wantV, wantOK, vcMaskString(r.pres))
		}
	}
	if sz := r.c.Stats().Size(); sz != int64(present) {
		return len(seq), "sweep", fmt.Sprintf("Stats().Size() == %d but Get reports %d keys present", sz, present)
	}
	Q, rep := r.peek(&vals)
	if cl, m := r.checkState(Q, &vals, rep); m != "" {
		return len(seq), cl, "after the closing Get(1..4): " + m
	}
	if Q != r.pres {
		return len(seq), "sweep", fmt.Sprintf("the closing Get(1..4) changed the held keys from %s to %s", vcMaskString(r.pres), vcMaskString(Q))
	}
	return -2, "", ""
}

type vcFailure struct {
	seqLen int
	shard  int
	ord    int
	text   string
}

type vcWorker struct {
	run      vcRun
	order    [vcAlphabet]uint8
	maxLen   int
	cases    int64
	failed   int64
	failures []vcFailure
	seen     map[string]bool
	shard    int
	cfgIdx   int
	progress atomic.Uint64 // number of sequences started
	cur      atomic.Uint64 // packed: done<<63 | cfgIdx<<40 | len<<36 | ops (4 bits each)
}

func vcPack(cfgIdx int, seq []uint8) uint64 {
	p := uint64(cfgIdx)<<40 | uint64(len(seq))<<36
	for i, op := range seq {
		p |= uint64(op) << uint(4*i)
	}
	return p
}

func vcUnpack(p uint64) (cfgIdx int, seq []uint8) {
	cfgIdx = int(p >> 40 & 0xff)
	n := int(p >> 36 & 0xf)
	for i := 0; i < n; i++ {
		seq = append(seq, uint8(p>>uint(4*i)&0xf))
	}
	return
}

func vcKnown(key string) bool {
	for _, k := range knownDeviations {
		if k != "" && strings.HasPrefix(key, k) {
			return true
		}
	}
	return false
}

func (w *vcWorker) one(seq []uint8) bool {
	w.cur.Store(vcPack(w.cfgIdx, seq))
	w.progress.Add(1)
	w.cases++
	step, class, msg := w.run.run(seq)
	if msg == "" {
		return true
	}
	cfg := w.run.cfg
	if vcKnown(fmt.Sprintf("%s cap=%d %s", vcImplName[cfg.impl], cfg.capacity, class)) {
		return false // known deviation: not reported, continuations of a diverged state are not explored
	}
	// describe the shortest sequence that shows it: the prefix up to the failing step
	shown := seq
	where := "in the closing Get(1..4) sweep"
	switch {
	case step < 0:
		shown, where = seq[:0], "on construction"
	case step < len(seq):
		shown, where = seq[:step+1], fmt.Sprintf("at step %d", step+1)
	}
	text := fmt.Sprintf("%s capacity=%d sequence=%s %s [%s]: %s", vcImplName[cfg.impl], cfg.capacity, vcSeqString(shown), where, class, msg)
	if w.seen[text] {
		return false
	}
	w.failed++
	if len(w.failures) < 5 {
		w.seen[text] = true
		w.failures = append(w.failures, vcFailure{len(shown), w.shard, len(w.failures), text})
	}
	return false
}

func (w *vcWorker) dfs(seq []uint8, depth int) {
	if !w.one(seq[:depth]) {
		return // the model and the cache have diverged: continuations carry no information
	}
	if depth == w.maxLen {
		return
	}
	for _, op := range w.order {
		seq[depth] = op
		w.dfs(seq, depth+1)
	}
}

// ---------------------------------------------------------------------------------------------- concurrent part

type vcCOp struct {
	kind  int // 0 Put, 1 Get, 2 Delete
	key   int
	val   int
	yield bool
}

const vcScriptLen = 200

func vcSplitmix(x *uint64) uint64 {
	*x += 0x9e3779b97f4a7c15
	z := *x
	z = (z ^ z>>30) * 0xbf58476d1ce4e5b9
	z = (z ^ z>>27) * 0x94d049bb133111eb
	return z ^ z>>31
}

// vcScript is a pure function of (W, w, round).
func vcScript(W, w, round int) []vcCOp {
	state := uint64(W)<<40 ^ uint64(w)<<20 ^ uint64(round) ^ 0xc16c16c16
	ops := make([]vcCOp, vcScriptLen)
	for i := range ops {
		x := vcSplitmix(&state)
		op := vcCOp{key: int(x>>8%vcKeys) + 1, yield: x>>16%8 == 0}
		switch r := x >> 32 % 10; {
		case r < 4:
			op.kind = 0
			op.val = ((w+1)*1000+(i+1))*10 + op.key
		case r < 8:
			op.kind = 1
		default:
			op.kind = 2
		}
		ops[i] = op
	}
	return ops
}

type vcGetResult struct {
	v  int
	ok bool
}

// vcDecode maps a written value back to (writer, step, key); ok is false if no script of this round wrote it.
func vcDecode(scripts [][]vcCOp, v int) (w, i, k int, ok bool) {
	if v <= 0 {
		return 0, 0, 0, false
	}
	k = v % 10
	i = v/10%1000 - 1
	w = v/10000 - 1
	if w < 0 || w >= len(scripts) || i < 0 || i >= len(scripts[w]) {
		return w, i, k, false
	}
	op := scripts[w][i]
	return w, i, k, op.kind == 0 && op.key == k && op.val == v
}

// vcOwnWriteBetween: does goroutine w write (Put or Delete) key k at a step in (from, to)?
func vcOwnWriteBetween(script []vcCOp, k, from, to int) int {
	for j := from + 1; j < to && j < len(script); j++ {
		if script[j].key == k && script[j].kind != 1 {
			return j
		}
	}
	return -1
}

func vcConcurrentRound(capacity, W, round int) (fail string) {
	id := fmt.Sprintf("sieve capacity=%d concurrent W=%d round=%d (goroutine w runs vcScript(%d,w,%d))", capacity, W, round, W, round)
	c := NewSieve[int, int](capacity)
	sv, isSieve := c.(*Sieve[int, int])
	if !isSieve || sv == nil {
		return fmt.Sprintf("%s: NewSieve returned a %T", id, c)
	}
	scripts := make([][]vcCOp, W)
	results := make([][]vcGetResult, W)
	panics := make([]string, W)
	for w := range scripts {
		scripts[w] = vcScript(W, w, round)
		results[w] = make([]vcGetResult, vcScriptLen)
	}
	var ready, finished sync.WaitGroup
	start := make(chan struct{})
	done := make(chan struct{})
	var at = make([]atomic.Int64, W)
	ready.Add(W)
	finished.Add(W)
	for w := 0; w < W; w++ {
		go func(w int) {
			defer finished.Done()
			defer func() {
				if p := recover(); p != nil {
					panics[w] = fmt.Sprintf("goroutine %d panicked at step %d: %v", w, at[w].Load(), p)
				}
			}()
			ready.Done()
			<-start
			for i, op := range scripts[w] {
				at[w].Store(int64(i))
				if op.yield {
					runtime.Gosched()
				}
				switch op.kind {
				case 0:
					c.Put(op.key, op.val)
				case 1:
					v, ok := c.Get(op.key)
					results[w][i] = vcGetResult{v, ok}
				default:
					c.Delete(op.key)
				}
			}
			at[w].Store(vcScriptLen)
		}(w)
	}
	ready.Wait()
	close(start)
	go func() { finished.Wait(); close(done) }()
	timer := time.NewTimer(20 * time.Second)
	defer timer.Stop()
	select {
	case <-done:
	case <-timer.C:
		var pos []string
		for w := range at {
			pos = append(pos, fmt.Sprintf("w%d@%d", w, at[w].Load()))
		}
		return fmt.Sprintf("%s: not finished after 20 s (deadlock or livelock); script positions %s", id, strings.Join(pos, " "))
	}
	for _, p := range panics {
		if p != "" {
			return id + ": " + p
		}
	}

	// checks on what the Gets returned during the run
	var gets, oks int64
	for w := 0; w < W; w++ {
		for i, op := range scripts[w] {
			if op.kind != 1 {
				continue
			}
			gets++
			res := results[w][i]
			if !res.ok {
				if res.v != 0 {
					return fmt.Sprintf("%s: goroutine %d step %d Get(%d) returned (%d,false), a miss must return the zero value", id, w, i, op.key, res.v)
				}
				continue
			}
			oks++
			ww, wi, wk, valid := vcDecode(scripts, res.v)
			if !valid || wk != op.key {
				return fmt.Sprintf("%s: goroutine %d step %d Get(%d) returned (%d,true), a value no goroutine Puts on key %d", id, w, i, op.key, res.v, op.key)
			}
			if ww == w {
				if wi > i {
					return fmt.Sprintf("%s: goroutine %d step %d Get(%d) returned (%d,true), a value the same goroutine only Puts later at step %d", id, w, i, op.key, res.v, wi)
				}
				if j := vcOwnWriteBetween(scripts[w], op.key, wi, i); j >= 0 {
					return fmt.Sprintf("%s: goroutine %d step %d Get(%d) returned (%d,true), its own Put of step %d, although the same goroutine wrote key %d again at step %d before the Get (superseded or deleted value)", id, w, i, op.key, res.v, wi, op.key, j)
				}
			}
		}
	}

	// quiescent state
	var vals [vcKeys + 1]int
	mask, rep := vcPeekSieve(sv, &vals)
	if rep != "" {
		return fmt.Sprintf("%s: representation invariant broken after the run: %s", id, rep)
	}
	held := bits.OnesCount8(mask)
	if sz := c.Stats().Size(); sz != int64(held) {
		return fmt.Sprintf("%s: Stats().Size() == %d but the cache holds %d keys %s after the run", id, sz, held, vcMaskString(mask))
	}
	if held > capacity {
		return fmt.Sprintf("%s: cache holds %d keys %s after the run, more than its capacity", id, held, vcMaskString(mask))
	}
	if h, m := c.Stats().Hits(), c.Stats().Misses(); h+m != gets || h != oks {
		return fmt.Sprintf("%s: Stats() hits/misses == %d/%d after the run, but %d Gets were issued of which %d returned a value", id, h, m, gets, oks)
	}
	for k := 1; k <= vcKeys; k++ {
		if mask&(1<<uint(k)) == 0 {
			continue
		}
		ww, wi, wk, valid := vcDecode(scripts, vals[k])
		if !valid || wk != k {
			return fmt.Sprintf("%s: key %d is held with value %d after the run, a value no goroutine Puts on key %d", id, k, vals[k], k)
		}
		if j := vcOwnWriteBetween(scripts[ww], k, wi, vcScriptLen); j >= 0 {
			return fmt.Sprintf("%s: key %d is held with value %d after the run (Put of goroutine %d at step %d) although the same goroutine wrote key %d again at step %d (superseded or deleted value)", id, k, vals[k], ww, wi, k, j)
		}
		// the public API agrees with the peek
		if v, ok := c.Get(k); !ok || v != vals[k] {
			return fmt.Sprintf("%s: after the run Get(%d) returned (%d,%v) but the store holds %d", id, k, v, ok, vals[k])
		}
	}
	// the structure is still operable
	for k := 1; k <= vcKeys; k++ {
		x := 9000000 + k
		c.Put(k, x)
		if v, ok := c.Get(k); !ok || v != x {
			return fmt.Sprintf("%s: after the run Put(%d,%d);Get(%d) returned (%d,%v)", id, k, x, k, v, ok)
		}
		m2, rep := vcPeekSieve(sv, &vals)
		if rep != "" {
			return fmt.Sprintf("%s: representation invariant broken by Put(%d,%d) after the run: %s", id, k, x, rep)
		}
		if n := bits.OnesCount8(m2); n > capacity || c.Stats().Size() != int64(n) {
			return fmt.Sprintf("%s: after the run and Put(%d,%d) the cache holds %d keys, Stats().Size() == %d, capacity %d", id, k, x, n, c.Stats().Size(), capacity)
		}
	}
	for k := 1; k <= vcKeys; k++ {
		c.Delete(k)
	}
	m3, rep := vcPeekSieve(sv, &vals)
	if rep != "" || m3 != 0 || c.Stats().Size() != 0 {
		return fmt.Sprintf("%s: after the run and Delete(1..4) the cache holds %s, Stats().Size() == %d, representation: %q", id, vcMaskString(m3), c.Stats().Size(), rep)
	}
	return ""
}

func TestVerifBoundedCache(t *testing.T) {
	maxLen, rounds := 6, 30
	boundName := os.Getenv("VERIF_BOUND")
	switch boundName {
	case "2":
		maxLen, rounds = 7, 200
	case "0": // smoke
		maxLen, rounds = 4, 5
	default:
		boundName = "1"
	}
	seed, _ := strconv.ParseInt(os.Getenv("VERIF_SEED"), 10, 64)
	rng := rand.New(rand.NewSource(seed))
	// every sequence runs on a fresh cache, so the live heap is tiny and the allocation rate high: collect less often
	defer debug.SetGCPercent(debug.SetGCPercent(2000))

	var cfgs []vcCfg
	for impl := 0; impl < 2; impl++ {
		for _, c := range []int{-1, 0, 1, 2, 3} {
			cfgs = append(cfgs, vcCfg{impl, c})
		}
	}
	limitOf := func(cfg vcCfg) int {
		if cfg.impl == vcSieve {
			if cfg.capacity <= 0 {
				return 1
			}
			return cfg.capacity
		}
		if cfg.capacity < 0 {
			return 0
		}
		return cfg.capacity
	}
	var order [vcAlphabet]uint8
	for i := range order {
		order[i] = uint8(i)
	}
	if seed != 0 {
		rng.Shuffle(len(order), func(i, j int) { order[i], order[j] = order[j], order[i] })
	}

	// shards: (configuration, first operation); shard -1 of each configuration is the empty sequence
	type shardSpec struct {
		cfgIdx int
		first  int // -1: the empty sequence only
	}
	var shards []shardSpec
	for ci := range cfgs {
		shards = append(shards, shardSpec{ci, -1})
		for op := 0; op < vcAlphabet; op++ {
			shards = append(shards, shardSpec{ci, op})
		}
	}
	visit := make([]int, len(shards))
	for i := range visit {
		visit[i] = i
	}
	if seed != 0 {
		rng.Shuffle(len(visit), func(i, j int) { visit[i], visit[j] = visit[j], visit[i] })
	}

	workers := make([]*vcWorker, len(shards))
	for si, sp := range shards {
		w := &vcWorker{order: order, maxLen: maxLen, seen: map[string]bool{}, shard: si, cfgIdx: sp.cfgIdx}
		w.run.cfg = cfgs[sp.cfgIdx]
		w.run.limit = limitOf(cfgs[sp.cfgIdx])
		workers[si] = w
	}
	const notStarted, running, finishedState = 0, 1, 2
	state := make([]atomic.Int32, len(shards))
	par := runtime.GOMAXPROCS(0)
	if par > len(shards) {
		par = len(shards)
	}
	var next atomic.Int64
	var wg sync.WaitGroup
	allDone := make(chan struct{})
	began := time.Now()
	for p := 0; p < par; p++ {
		wg.Add(1)
		go func() {
			defer wg.Done()
			for {
				n := int(next.Add(1)) - 1
				if n >= len(visit) {
					return
				}
				si := visit[n]
				w, sp := workers[si], shards[si]
				state[si].Store(running)
				var seq [8]uint8
				if sp.first < 0 {
					w.one(seq[:0])
				} else {
					seq[0] = uint8(sp.first)
					w.dfs(seq[:], 1)
				}
				state[si].Store(finishedState)
			}
		}()
	}
	go func() { wg.Wait(); close(allDone) }()

	// watchdog: a shard that starts no new sequence for 20 s is stuck inside the code under test
	var failures []string
	exhaustive := true
	hung := false
	lastProgress := make([]uint64, len(shards))
	lastChange := make([]time.Time, len(shards))
	ticker := time.NewTicker(time.Second)
wait:
	for {
		select {
		case <-allDone:
			break wait
		case now := <-ticker.C:
			for si := range shards {
				if state[si].Load() != running {
					lastChange[si] = time.Time{}
					continue
				}
				p := workers[si].progress.Load()
				if p != lastProgress[si] || lastChange[si].IsZero() {
					lastProgress[si], lastChange[si] = p, now
					continue
				}
				if now.Sub(lastChange[si]) >= 20*time.Second {
					ci, seq := vcUnpack(workers[si].cur.Load())
					failures = append(failures, fmt.Sprintf("%s capacity=%d sequence=%s (then the closing Get(1..4) sweep): no progress for 20 s - an operation of this sequence hangs (deadlock or endless loop)", vcImplName[cfgs[ci].impl], cfgs[ci].capacity, vcSeqString(seq)))
					hung = true
					break wait
				}
			}
		}
	}
	ticker.Stop()

	var cases, failedCases int64
	if hung {
		exhaustive = false
		for si := range shards {
			cases += int64(workers[si].progress.Load())
		}
	} else {
		var all []vcFailure
		for _, w := range workers {
			cases += w.cases
			failedCases += w.failed
			all = append(all, w.failures...)
		}
		sort.Slice(all, func(i, j int) bool {
			a, b := all[i], all[j]
			if a.seqLen != b.seqLen {
				return a.seqLen < b.seqLen
			}
			if a.shard != b.shard {
				return a.shard < b.shard
			}
			return a.ord < b.ord
		})
		for _, f := range all {
			if len(failures) < 5 {
				failures = append(failures, f.text)
			}
		}
	}
	seqElapsed := time.Since(began)

	// concurrent part
	concRuns := 0
	concBegan := time.Now()
	if !hung {
		type ccfg struct{ capacity, W int }
		var ccfgs []ccfg
		for _, c := range []int{2, 3} {
			for _, W := range []int{2, 4, 8} {
				ccfgs = append(ccfgs, ccfg{c, W})
			}
		}
		if seed != 0 {
			rng.Shuffle(len(ccfgs), func(i, j int) { ccfgs[i], ccfgs[j] = ccfgs[j], ccfgs[i] })
		}
	conc:
		for _, cc := range ccfgs {
			for r := 0; r < rounds; r++ {
				concRuns++
				if f := vcConcurrentRound(cc.capacity, cc.W, r); f != "" {
					failedCases++
					if len(failures) < 5 {
						failures = append(failures, f)
					}
					if strings.Contains(f, "not finished after 20 s") {
						exhaustive = false
						break conc // stuck goroutines are still alive: stop here
					}
					break // one report per configuration is enough; go on with the next configuration
				}
			}
		}
	}
	cases += int64(concRuns)

	// FAMILY "map cache, concurrent": NonExpiringMapCache of capacity 2 and 8 x {2, 8, 16} goroutines x 20000 operations each
	// (Put / Get / Delete over 12 keys, the value names its key). Schedule-independent oracle: no goroutine panics, all
	// finish within 20 s, every hit returns a value put under that very key, and when all have finished the keys a Get
	// still finds number at most the capacity and exactly Stats().Size. (An unsynchronised map write is a fatal error
	// of the runtime: the process dies, which the check reports with the runtime's message.)
	if !hung {
		for _, capacity := range []int{2, 8} {
			for _, W := range []int{2, 8, 16} {
				cases++
				c := NewNonExpiringMapCache[int, int](capacity)
				problems := make(chan string, W)
				var wg sync.WaitGroup
				for w := 0; w < W; w++ {
					wg.Add(1)
					go func(w int) {
						defer wg.Done()
						defer func() {
							if r := recover(); r != nil {
								problems <- fmt.Sprintf("goroutine %d panics: %v", w, r)
							}
						}()
						x := uint64(w*7919 + capacity)
						for i := 0; i < 20000; i++ {
							r := vcSplitmix(&x)
							key := int(r % 12)
							switch (r >> 8) % 4 {
							case 0, 1:
								c.Put(key, key*1000+w)
							case 2:
								if v, ok := c.Get(key); ok && v/1000 != key {
									problems <- fmt.Sprintf("Get(%d) returns %d, a value put under key %d", key, v, v/1000)
									return
								}
							default:
								c.Delete(key)
							}
						}
					}(w)
				}
				done := make(chan struct{})
				go func() { wg.Wait(); close(done) }()
				msg := ""
				select {
				case <-done:
					select {
					case msg = <-problems:
					default:
						found := 0
						for k := 0; k < 12; k++ {
							if _, ok := c.Get(k); ok {
								found++
							}
						}
						if size := int(c.Stats().Size()); found > capacity || found != size {
							msg = fmt.Sprintf("after all goroutines finished %d keys are found, Stats().Size is %d, capacity %d", found, size, capacity)
						}
					}
				case <-time.After(20 * time.Second):
					msg = "not finished after 20 s"
					exhaustive = false
				}
				if msg != "" {
					failedCases++
					if len(failures) < 5 {
						failures = append(failures, fmt.Sprintf("NonExpiringMapCache capacity %d, %d goroutines x 20000 operations: %s", capacity, W, msg))
					}
				}
			}
		}
	}

	// FAMILY "interface keys": both caches instantiated with K = any over the keys {nil, "a", 1} (a nil interface is a
	// comparable key like any other), capacities {1, 2}, every sequence of length <= 4 over {Put k, Get k, Delete k}.
	// Oracle: no panic; a Get returns a miss or the value of the last Put of that key not followed by a Delete of it;
	// the size statistic never exceeds the capacity and equals the number of keys a Get still finds.
	ifaceCases := 0
	{
		keys := []any{nil, "a", 1}
		keyName := []string{"nil", "\"a\"", "1"}
		type op struct{ kind, key int }
		var ops []op
		for kind := 0; kind < 3; kind++ {
			for k := range keys {
				ops = append(ops, op{kind, k})
			}
		}
		opName := func(o op) string { return []string{"Put", "Get", "Delete"}[o.kind] + "(" + keyName[o.key] + ")" }
		var run func(impl, capacity int, seq []op)
		run = func(impl, capacity int, seq []op) {
			ifaceCases++
			var c Cache[any, int]
			if impl == vcSieve {
				c = NewSieve[any, int](capacity)
			} else {
				c = NewNonExpiringMapCache[any, int](capacity)
			}
			last := map[int]int{} // key index -> last value put and not deleted
			msg := ""
			func() {
				defer func() {
					if r := recover(); r != nil {
						msg = fmt.Sprintf("panic: %v", r)
					}
				}()
				for step, o := range seq {
					switch o.kind {
					case 0:
						v := 100*(step+1) + o.key
						c.Put(keys[o.key], v)
						last[o.key] = v
					case 1:
						if v, ok := c.Get(keys[o.key]); ok {
							if want, had := last[o.key]; !had || v != want {
								msg = fmt.Sprintf("step %d Get(%s) = %d, the last value put for that key is %v (present: %v)", step+1, keyName[o.key], v, want, had)
								return
							}
						}
					case 2:
						c.Delete(keys[o.key])
						delete(last, o.key)
					}
					if size := c.Stats().Size(); size > int64(capacity) {
						msg = fmt.Sprintf("after step %d the size statistic is %d, capacity %d", step+1, size, capacity)
						return
					}
				}
			}()
			if msg != "" && len(failures) < 5 {
				names := make([]string, len(seq))
				for i, o := range seq {
					names[i] = opName(o)
				}
				failures = append(failures, fmt.Sprintf("%s[any,int] capacity=%d sequence=[%s]: %s", vcImplName[impl], capacity, strings.Join(names, " "), msg))
			}
		}
		var gen func(impl, capacity int, seq []op)
		gen = func(impl, capacity int, seq []op) {
			if len(seq) > 0 {
				run(impl, capacity, seq)
			}
			if len(seq) == 4 {
				return
			}
			for _, o := range ops {
				gen(impl, capacity, append(append([]op{}, seq...), o))
			}
		}
		for impl := 0; impl < 2; impl++ {
			for _, capacity := range []int{1, 2} {
				gen(impl, capacity, nil)
			}
		}
	}
	cases += int64(ifaceCases)

	fmt.Printf("c16 cache: %d sequential cases in %.1fs on %d workers, %d concurrent runs in %.1fs, %d failing cases\n",
		cases-int64(concRuns), seqElapsed.Seconds(), par, concRuns, time.Since(concBegan).Seconds(), failedCases)
	if failures == nil {
		failures = []string{}
	}
	bound := fmt.Sprintf("bound %s: {Sieve, NonExpiringMapCache}[int,int] x capacity {-1,0,1,2,3} x every sequence of length 0..%d over {Put,Get,Delete} x keys {1,2,3,4} (checked after every step, closed by Get(1..4)); plus Sieve capacity {2,3} x {2,4,8} goroutines x %d rounds of fixed 200-operation scripts over 4 keys (schedule-independent checks); plus both caches with K = any over keys {nil, \"a\", 1}, capacities {1,2}, every sequence of length <= 4; plus NonExpiringMapCache capacity {2,8} x {2,8,16} goroutines x 20000 operations over 12 keys", boundName, maxLen, rounds)
	res := map[string]any{"name": "cache", "bound": bound, "cases": cases, "exhaustive": exhaustive, "failures": failures}
	out, _ := json.Marshal(res)
	fmt.Println("BOUNDED-RESULT " + string(out))
	if len(failures) > 0 {
		t.Fail()
	}
}
