package algo

// Bounded stand-in for C15 (labelled bounded, never counted as proved): SCC partition, component-graph
// acyclicity and every reachability answer against plain BFS on the original graph, exhaustively over
// ALL digraphs (self loops included) on VERIF_BOUND nodes x both directions x every query sequence of
// bounded length x cache capacities {1,2,3,100}.

import (
	"context"
	"encoding/json"
	"fmt"
	"io"
	"log/slog"
	"os"
	"sort"
	"strconv"
	"testing"

	"github.com/specterops/dawgs/cardinality"
	"github.com/specterops/dawgs/container"
	"github.com/specterops/dawgs/graph"
)

type rEdge struct{ s, e uint64 }

func rSorted(m map[uint64]bool) []uint64 {
	out := []uint64{}
	for k := range m {
		out = append(out, k)
	}
	sort.Slice(out, func(i, j int) bool { return out[i] < out[j] })
	return out
}

func rEq(a []uint64, b map[uint64]bool) bool {
	if len(a) != len(b) {
		return false
	}
	for _, x := range a {
		if !b[x] {
			return false
		}
	}
	return true
}

// reflexive-transitive reach of u following direction d
func rReach(edges []rEdge, u uint64, d graph.Direction) map[uint64]bool {
	seen := map[uint64]bool{u: true}
	work := []uint64{u}
	for len(work) > 0 {
		x := work[0]
		work = work[1:]
		for _, e := range edges {
			var next uint64
			switch {
			case d == graph.DirectionOutbound && e.s == x:
				next = e.e
			case d == graph.DirectionInbound && e.e == x:
				next = e.s
			case d == graph.DirectionBoth && (e.s == x || e.e == x):
				// undirected: both endpoints of an edge at x are neighbours
				for _, nb := range []uint64{e.s, e.e} {
					if !seen[nb] {
						seen[nb] = true
						work = append(work, nb)
					}
				}
				continue
			default:
				continue
			}
			if !seen[next] {
				seen[next] = true
				work = append(work, next)
			}
		}
	}
	return seen
}

func TestVerifBoundedReach(t *testing.T) {
	// NewComponentGraph logs two lines per call through the default logger; a million calls of it are made here
	slog.SetDefault(slog.New(slog.NewTextHandler(io.Discard, nil)))
	// VERIF_BOUND: "3" = 3 nodes with self loops; "4" = 4 nodes without self loops (4096 graphs);
	// "4s" = 4 nodes with self loops (65536 graphs). Query sequences up to length 2.
	n := 3
	seqLen := 2
	selfLoops := true
	capacities := []int{1, 2, 3, 100}
	switch os.Getenv("VERIF_BOUND") {
	case "4":
		n, selfLoops, capacities = 4, false, []int{1, 100}
	case "4s":
		n, capacities = 4, []int{1, 2, 100}
	default:
		if v, err := strconv.Atoi(os.Getenv("VERIF_BOUND")); err == nil && v > 0 {
			n = v
		}
	}
	ids := []uint64{}
	for i := 0; i < n; i++ {
		ids = append(ids, uint64(3+5*i))
	}
	var pairs []rEdge
	for _, a := range ids {
		for _, b := range ids {
			if a != b || selfLoops {
				pairs = append(pairs, rEdge{a, b})
			}
		}
	}
	// all query sequences up to seqLen; every query picks its own direction (a cache serves both)
	type rQuery struct {
		node uint64
		dir  graph.Direction
	}
	var seqs [][]rQuery
	var gen func(cur []rQuery)
	gen = func(cur []rQuery) {
		if len(cur) > 0 {
			seqs = append(seqs, append([]rQuery{}, cur...))
		}
		if len(cur) == seqLen {
			return
		}
		for _, id := range ids {
			for _, d := range []graph.Direction{graph.DirectionOutbound, graph.DirectionInbound} {
				gen(append(cur, rQuery{id, d}))
			}
		}
	}
	gen(nil)
	graphs, cases := 0, 0
	var failures []string
	fail := func(format string, args ...any) {
		if len(failures) < 5 {
			failures = append(failures, fmt.Sprintf(format, args...))
		}
	}
	ctx := context.Background()
	// one graph: SCC partition, component graph, and every query sequence under every capacity
	var checkGraph func(ids []uint64, edges []rEdge, capacities []int, seqs [][]rQuery)
	checkGraph = func(ids []uint64, edges []rEdge, capacities []int, seqs [][]rQuery) {
		graphs++
		b := container.NewCSRDigraphBuilder()
		for _, id := range ids {
			b.AddNode(id)
		}
		for _, e := range edges {
			b.AddEdge(e.s, e.e)
		}
		dg := b.Build()
		// SCC partition: same component iff mutually reachable
		comps, nodeToComp := StronglyConnectedComponents(ctx, dg)
		cases++
		for _, a := range ids {
			ca, ok := nodeToComp[a]
			if !ok {
				fail("scc: node %d has no component edges=%v", a, edges)
				continue
			}
			if int(ca) >= len(comps) || !comps[ca].Contains(a) {
				fail("scc: node %d not a member of its component edges=%v", a, edges)
			}
			ra := rReach(edges, a, graph.DirectionOutbound)
			for _, c := range ids {
				mutual := ra[c] && rReach(edges, c, graph.DirectionOutbound)[a]
				if (nodeToComp[c] == ca) != mutual {
					fail("scc: nodes %d,%d same component=%v but mutually reachable=%v edges=%v", a, c, nodeToComp[c] == ca, mutual, edges)
				}
			}
		}
		total := uint64(0)
		for _, c := range comps {
			total += c.Cardinality()
		}
		if total != uint64(len(ids)) {
			fail("scc: components hold %d members for %d nodes edges=%v", total, len(ids), edges)
		}
		// component graph is acyclic: no component reaches another that reaches it back
		cg := NewComponentGraph(ctx, dg)
		for ci := range comps {
			for cj := range comps {
				if ci != cj && cg.ComponentSearch(uint64(ci), uint64(cj), graph.DirectionOutbound) && cg.ComponentSearch(uint64(cj), uint64(ci), graph.DirectionOutbound) {
					fail("component graph has a cycle between %d and %d edges=%v", ci, cj, edges)
				}
			}
		}
		for _, capacity := range capacities {
			for si, seq := range seqs {
				cases++
				rc := NewReachabilityCache(ctx, dg, capacity)
				// the reach set is offered in two forms (one bitmap, a slice of member bitmaps); alternate which form a
				// history asks first, so that each form is also the FIRST query a fresh cache sees
				sliceFirst := si%2 == 1
				checkSlice := func(qi int, q uint64, d graph.Direction, want map[uint64]bool) {
					union := map[uint64]bool{}
					for _, part := range rc.ReachSliceOfComponentContainingMember(q, d) {
						part.Each(func(v uint64) bool {
							union[v] = true
							return true
						})
					}
					if !rEq(rSorted(union), want) {
						fail("ReachSlice(%d, dir %d) after queries %v (capacity %d, slice asked first: %v) = %v want %v edges=%v", q, d, seq[:qi], capacity, sliceFirst, rSorted(union), rSorted(want), edges)
					}
				}
				for qi, qd := range seq {
					q, d := qd.node, qd.dir
					if d == graph.DirectionBoth {
						// the reach-set query is made for its effect on the caches only (what set it returns for this mode is
						// not specified); can-reach in this mode is judged against undirected search
						rc.ReachOfComponentContainingMember(q, d)
						wantBoth := rReach(edges, q, d)
						for _, target := range ids {
							if got := rc.CanReach(q, target, d); got != wantBoth[target] {
								fail("CanReach(%d,%d,both)=%v want %v (undirected search) edges=%v", q, target, got, wantBoth[target], edges)
							}
						}
						continue
					}
					want := rReach(edges, q, d)
					if sliceFirst {
						checkSlice(qi, q, d, want)
					}
					got := rc.ReachOfComponentContainingMember(q, d).Slice()
					if !rEq(got, want) {
						fail("ReachOf(%d, dir %d) after queries %v (capacity %d) = %v want %v edges=%v", q, d, seq[:qi], capacity, got, rSorted(want), edges)
					}
					if !sliceFirst {
						checkSlice(qi, q, d, want)
					}
					// or-/xor-reach on top
					acc := cardinality.NewBitmap64With(q, 999)
					rc.OrReach(q, d, acc)
					wantOr := map[uint64]bool{999: true}
					for k := range want {
						if k != q {
							wantOr[k] = true
						}
					}
					if !rEq(acc.Slice(), wantOr) {
						fail("OrReach(%d, dir %d) after %v (capacity %d) = %v want %v edges=%v", q, d, seq[:qi], capacity, acc.Slice(), rSorted(wantOr), edges)
					}
					x := cardinality.NewBitmap64With(q, 999)
					rc.XorReach(q, d, x)
					wantX := map[uint64]bool{999: true, q: true}
					for k := range want {
						if k != q {
							wantX[k] = true
						}
					}
					if !rEq(x.Slice(), wantX) {
						fail("XorReach(%d, dir %d) after %v (capacity %d) = %v want %v edges=%v", q, d, seq[:qi], capacity, x.Slice(), rSorted(wantX), edges)
					}
					if qi == 0 {
						for _, target := range ids {
							if got := rc.CanReach(q, target, d); got != want[target] {
								fail("CanReach(%d,%d,dir %d)=%v want %v edges=%v", q, target, d, got, want[target], edges)
							}
						}
					}
				}
			}
		}
	}
	for mask := 0; mask < 1<<uint(len(pairs)); mask++ {
		var edges []rEdge
		for i, p := range pairs {
			if mask&(1<<uint(i)) != 0 {
				edges = append(edges, p)
			}
		}
		checkGraph(ids, edges, capacities, seqs)
	}
	// FAMILY "both-history": the third mode of the API (DirectionBoth) as an EARLIER query of a history. What such a query
	// itself returns is not part of the statement ("both directions" are outbound and inbound); what the statement says is
	// that the outbound and inbound answers do not depend on the queries made before. Every sequence of a DirectionBoth
	// query followed by one or two directed queries, on every graph of the main enumeration with at most 3 nodes worth of
	// ids (the first three ids), capacities as above.
	{
		ids3 := ids
		if len(ids3) > 3 {
			ids3 = ids3[:3]
		}
		var pairs3 []rEdge
		for _, a := range ids3 {
			for _, b := range ids3 {
				pairs3 = append(pairs3, rEdge{a, b})
			}
		}
		var seqsB [][]rQuery
		for _, b0 := range ids3 {
			for _, q1 := range ids3 {
				for _, d1 := range []graph.Direction{graph.DirectionOutbound, graph.DirectionInbound} {
					seqsB = append(seqsB, []rQuery{{b0, graph.DirectionBoth}, {q1, d1}})
				}
			}
		}
		for mask := 0; mask < 1<<uint(len(pairs3)); mask++ {
			var edges []rEdge
			for i, p := range pairs3 {
				if mask&(1<<uint(i)) != 0 {
					edges = append(edges, p)
				}
			}
			checkGraph(ids3, edges, capacities, seqsB)
		}
	}
	// FAMILY "dag5": all 1024 acyclic digraphs on 5 nodes whose edges go from a lower to a higher id (diamonds over a
	// shared sink, forks, chains) x every sequence of two directed queries x capacities {1,2,3}: cache entries are evicted
	// and recomputed while other cursors are in flight.
	{
		ids5 := []uint64{2, 4, 6, 8, 10}
		var pairs5 []rEdge
		for i, a := range ids5 {
			for _, b := range ids5[i+1:] {
				pairs5 = append(pairs5, rEdge{a, b})
			}
		}
		var seqs5 [][]rQuery
		for _, q0 := range ids5 {
			for _, d0 := range []graph.Direction{graph.DirectionOutbound, graph.DirectionInbound} {
				for _, q1 := range ids5 {
					for _, d1 := range []graph.Direction{graph.DirectionOutbound, graph.DirectionInbound} {
						seqs5 = append(seqs5, []rQuery{{q0, d0}, {q1, d1}})
					}
				}
			}
		}
		for mask := 0; mask < 1<<uint(len(pairs5)); mask++ {
			var edges []rEdge
			for i, p := range pairs5 {
				if mask&(1<<uint(i)) != 0 {
					edges = append(edges, p)
				}
			}
			checkGraph(ids5, edges, []int{1, 2, 3}, seqs5)
		}
	}
	// FAMILY "condensation": the component graph itself against the quotient of the edge list. For every pair of different
	// components there is a component edge exactly when some original edge leads from a member of the one to a member of
	// the other - checked on the component digraph directly (not through reachability, where a second path can hide a
	// missing edge), for both containers (CSR and adjacency map: they hand out nodes and neighbours in different orders).
	// Graphs: every digraph without self loops on 5 nodes with at most 6 edges (VERIF_BOUND "4s": at most 8), and on 6
	// nodes every placement of two disjoint 2-cycles plus every set of at most 3 (at most 4) further edges.
	condensed := 0
	checkCondensation := func(ids []uint64, edges []rEdge) {
		for ci, mk := range []func() container.DirectedGraph{
			func() container.DirectedGraph {
				b := container.NewCSRDigraphBuilder()
				for _, id := range ids {
					b.AddNode(id)
				}
				for _, e := range edges {
					b.AddEdge(e.s, e.e)
				}
				return b.Build()
			},
			func() container.DirectedGraph {
				g := container.NewAdjacencyMapGraph()
				for _, id := range ids {
					g.AddNode(id)
				}
				for _, e := range edges {
					g.AddEdge(e.s, e.e)
				}
				return g
			},
		} {
			condensed++
			name := []string{"csr", "adjacency map"}[ci]
			cg := NewComponentGraph(ctx, mk())
			comp := map[uint64]uint64{}
			for _, id := range ids {
				c, ok := cg.ContainingComponent(id)
				if !ok {
					fail("condensation (%s): node %d has no component edges=%v", name, id, edges)
					return
				}
				comp[id] = c
			}
			want := map[[2]uint64]bool{}
			for _, e := range edges {
				if comp[e.s] != comp[e.e] {
					want[[2]uint64{comp[e.s], comp[e.e]}] = true
				}
			}
			got := map[[2]uint64]bool{}
			gotIn := map[[2]uint64]bool{}
			cg.Digraph().EachNode(func(c uint64) bool {
				cg.Digraph().EachAdjacentNode(c, graph.DirectionOutbound, func(adj uint64) bool {
					got[[2]uint64{c, adj}] = true
					return true
				})
				cg.Digraph().EachAdjacentNode(c, graph.DirectionInbound, func(adj uint64) bool {
					gotIn[[2]uint64{adj, c}] = true
					return true
				})
				return true
			})
			for _, side := range []struct {
				name string
				got  map[[2]uint64]bool
			}{{"outbound", got}, {"inbound", gotIn}} {
				for e := range want {
					if !side.got[e] {
						fail("condensation (%s): the component graph lacks the %s edge %d->%d (components of the nodes: %v) edges=%v", name, side.name, e[0], e[1], comp, edges)
						return
					}
				}
				for e := range side.got {
					if !want[e] {
						fail("condensation (%s): the component graph has a %s edge %d->%d no original edge accounts for (components of the nodes: %v) edges=%v", name, side.name, e[0], e[1], comp, edges)
						return
					}
				}
			}
		}
	}
	{
		maxEdges5, maxExtra6 := 6, 3
		if os.Getenv("VERIF_BOUND") == "4s" {
			maxEdges5, maxExtra6 = 8, 4
		}
		var subsets func(pool []rEdge, from, left int, cur []rEdge, f func([]rEdge))
		subsets = func(pool []rEdge, from, left int, cur []rEdge, f func([]rEdge)) {
			f(cur)
			if left == 0 {
				return
			}
			for i := from; i < len(pool); i++ {
				subsets(pool, i+1, left-1, append(cur, pool[i]), f)
			}
		}
		ids5 := []uint64{0, 1, 2, 3, 4}
		var pool5 []rEdge
		for _, a := range ids5 {
			for _, b := range ids5 {
				if a != b {
					pool5 = append(pool5, rEdge{a, b})
				}
			}
		}
		subsets(pool5, 0, maxEdges5, nil, func(edges []rEdge) { checkCondensation(ids5, edges) })
		ids6 := []uint64{0, 1, 2, 3, 4, 5}
		for a := 0; a < 6; a++ {
			for b := a + 1; b < 6; b++ {
				for c := a + 1; c < 6; c++ {
					for d := c + 1; d < 6; d++ {
						if c == b || d == b {
							continue
						}
						fixed := []rEdge{{uint64(a), uint64(b)}, {uint64(b), uint64(a)}, {uint64(c), uint64(d)}, {uint64(d), uint64(c)}}
						isFixed := map[rEdge]bool{}
						for _, e := range fixed {
							isFixed[e] = true
						}
						var pool []rEdge
						for _, x := range ids6 {
							for _, y := range ids6 {
								if x != y && !isFixed[rEdge{x, y}] {
									pool = append(pool, rEdge{x, y})
								}
							}
						}
						subsets(pool, 0, maxExtra6, fixed, func(edges []rEdge) { checkCondensation(ids6, edges) })
					}
				}
			}
		}
	}
	res := map[string]any{"name": "reach", "bound": fmt.Sprintf("all digraphs (self loops: %v) on %d nodes, query sequences up to length %d, capacities %v; + a DirectionBoth query before every directed query on all digraphs on 3 of the ids; + all 1024 forward-edge DAGs on 5 nodes x all pairs of directed queries x capacities 1,2,3; + the component graph against the quotient of the edge list for both containers on %d graphs (5 nodes with few edges; 6 nodes with two 2-cycles and few further edges)", selfLoops, n, seqLen, capacities, condensed/2), "graphs": graphs, "condensations": condensed, "cases": cases, "exhaustive": true, "failures": failures}
	out, _ := json.Marshal(res)
	fmt.Println("BOUNDED-RESULT " + string(out))
	if len(failures) > 0 {
		t.Fail()
	}
}
