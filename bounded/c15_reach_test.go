package algo

// Bounded stand-in for C15 (labelled bounded, never counted as proved): SCC partition, component-graph
// acyclicity and every reachability answer against plain BFS on the original graph, exhaustively over
// ALL digraphs (self loops included) on VERIF_BOUND nodes x both directions x every query sequence of
// bounded length x cache capacities {1,2,3,100}.

import (
	"context"
	"encoding/json"
	"fmt"
	"os"
	"sort"
	"strconv"
	"testing"

	"github.com/specterops/dawgs/cardinality"
	"github.com/specterops/dawgs/container"
	"github.com/specterops/dawgs/graph"
)

type rEdge struct{ s, e uint64 }

func rSorted(m map[uint64]bool) []uint64 {
	out := []uint64{}
	for k := range m {
		out = append(out, k)
	}
	sort.Slice(out, func(i, j int) bool { return out[i] < out[j] })
	return out
}

func rEq(a []uint64, b map[uint64]bool) bool {
	if len(a) != len(b) {
		return false
	}
	for _, x := range a {
		if !b[x] {
			return false
		}
	}
	return true
}

// reflexive-transitive reach of u following direction d
func rReach(edges []rEdge, u uint64, d graph.Direction) map[uint64]bool {
	seen := map[uint64]bool{u: true}
	work := []uint64{u}
	for len(work) > 0 {
		x := work[0]
		work = work[1:]
		for _, e := range edges {
			var next uint64
			switch {
			case d == graph.DirectionOutbound && e.s == x:
				next = e.e
			case d == graph.DirectionInbound && e.e == x:
				next = e.s
			case d == graph.DirectionBoth && (e.s == x || e.e == x):
				// undirected: both endpoints of an edge at x are neighbours
				for _, nb := range []uint64{e.s, e.e} {
					if !seen[nb] {
						seen[nb] = true
						work = append(work, nb)
					}
				}
				continue
			default:
				continue
			}
			if !seen[next] {
				seen[next] = true
				work = append(work, next)
			}
		}
	}
	return seen
}

func TestVerifBoundedReach(t *testing.T) {
	// VERIF_BOUND: "3" = 3 nodes with self loops; "4" = 4 nodes without self loops (4096 graphs);
	// "4s" = 4 nodes with self loops (65536 graphs). Query sequences up to length 2.
	n := 3
	seqLen := 2
	selfLoops := true
	capacities := []int{1, 2, 3, 100}
	switch os.Getenv("VERIF_BOUND") {
	case "4":
		n, selfLoops, capacities = 4, false, []int{1, 100}
	case "4s":
		n, capacities = 4, []int{1, 2, 100}
	default:
		if v, err := strconv.Atoi(os.Getenv("VERIF_BOUND")); err == nil && v > 0 {
			n = v
		}
	}
	ids := []uint64{}
	for i := 0; i < n; i++ {
		ids = append(ids, uint64(3+5*i))
	}
	var pairs []rEdge
	for _, a := range ids {
		for _, b := range ids {
			if a != b || selfLoops {
				pairs = append(pairs, rEdge{a, b})
			}
		}
	}
	// all query sequences up to seqLen; every query picks its own direction (a cache serves both)
	type rQuery struct {
		node uint64
		dir  graph.Direction
	}
	var seqs [][]rQuery
	var gen func(cur []rQuery)
	gen = func(cur []rQuery) {
		if len(cur) > 0 {
			seqs = append(seqs, append([]rQuery{}, cur...))
		}
		if len(cur) == seqLen {
			return
		}
		for _, id := range ids {
			for _, d := range []graph.Direction{graph.DirectionOutbound, graph.DirectionInbound} {
				gen(append(cur, rQuery{id, d}))
			}
		}
	}
	gen(nil)
	graphs, cases := 0, 0
	var failures []string
	fail := func(format string, args ...any) {
		if len(failures) < 5 {
			failures = append(failures, fmt.Sprintf(format, args...))
		}
	}
	ctx := context.Background()
	// one graph: SCC partition, component graph, and every query sequence under every capacity
	var checkGraph func(ids []uint64, edges []rEdge, capacities []int, seqs [][]rQuery)
	checkGraph = func(ids []uint64, edges []rEdge, capacities []int, seqs [][]rQuery) {
		graphs++
		b := container.NewCSRDigraphBuilder()
		for _, id := range ids {
			b.AddNode(id)
		}
		for _, e := range edges {
			b.AddEdge(e.s, e.e)
		}
		dg := b.Build()
		// SCC partition: same component iff mutually reachable
		comps, nodeToComp := StronglyConnectedComponents(ctx, dg)
		cases++
		for _, a := range ids {
			ca, ok := nodeToComp[a]
			if !ok {
				fail("scc: node %d has no component edges=%v", a, edges)
				continue
			}
			if int(ca) >= len(comps) || !comps[ca].Contains(a) {
				fail("scc: node %d not a member of its component edges=%v", a, edges)
			}
			ra := rReach(edges, a, graph.DirectionOutbound)
			for _, c := range ids {
				mutual := ra[c] && rReach(edges, c, graph.DirectionOutbound)[a]
				if (nodeToComp[c] == ca) != mutual {
					fail("scc: nodes %d,%d same component=%v but mutually reachable=%v edges=%v", a, c, nodeToComp[c] == ca, mutual, edges)
				}
			}
		}
		total := uint64(0)
		for _, c := range comps {
			total += c.Cardinality()
		}
		if total != uint64(len(ids)) {
			fail("scc: components hold %d members for %d nodes edges=%v", total, len(ids), edges)
		}
		// component graph is acyclic: no component reaches another that reaches it back
		cg := NewComponentGraph(ctx, dg)
		for ci := range comps {
			for cj := range comps {
				if ci != cj && cg.ComponentSearch(uint64(ci), uint64(cj), graph.DirectionOutbound) && cg.ComponentSearch(uint64(cj), uint64(ci), graph.DirectionOutbound) {
					fail("component graph has a cycle between %d and %d edges=%v", ci, cj, edges)
				}
			}
		}
		for _, capacity := range capacities {
			for _, seq := range seqs {
				cases++
				rc := NewReachabilityCache(ctx, dg, capacity)
				for qi, qd := range seq {
					q, d := qd.node, qd.dir
					if d == graph.DirectionBoth {
						// the reach-set query is made for its effect on the caches only (what set it returns for this mode is
						// not specified); can-reach in this mode is judged against undirected search
						rc.ReachOfComponentContainingMember(q, d)
						wantBoth := rReach(edges, q, d)
						for _, target := range ids {
							if got := rc.CanReach(q, target, d); got != wantBoth[target] {
								fail("CanReach(%d,%d,both)=%v want %v (undirected search) edges=%v", q, target, got, wantBoth[target], edges)
							}
						}
						continue
					}
					want := rReach(edges, q, d)
					got := rc.ReachOfComponentContainingMember(q, d).Slice()
					if !rEq(got, want) {
						fail("ReachOf(%d, dir %d) after queries %v (capacity %d) = %v want %v edges=%v", q, d, seq[:qi], capacity, got, rSorted(want), edges)
					}
					// or-/xor-reach on top
					acc := cardinality.NewBitmap64With(q, 999)
					rc.OrReach(q, d, acc)
					wantOr := map[uint64]bool{999: true}
					for k := range want {
						if k != q {
							wantOr[k] = true
						}
					}
					if !rEq(acc.Slice(), wantOr) {
						fail("OrReach(%d, dir %d) after %v (capacity %d) = %v want %v edges=%v", q, d, seq[:qi], capacity, acc.Slice(), rSorted(wantOr), edges)
					}
					x := cardinality.NewBitmap64With(q, 999)
					rc.XorReach(q, d, x)
					wantX := map[uint64]bool{999: true, q: true}
					for k := range want {
						if k != q {
							wantX[k] = true
						}
					}
					if !rEq(x.Slice(), wantX) {
						fail("XorReach(%d, dir %d) after %v (capacity %d) = %v want %v edges=%v", q, d, seq[:qi], capacity, x.Slice(), rSorted(wantX), edges)
					}
					if qi == 0 {
						for _, target := range ids {
							if got := rc.CanReach(q, target, d); got != want[target] {
								fail("CanReach(%d,%d,dir %d)=%v want %v edges=%v", q, target, d, got, want[target], edges)
							}
						}
					}
				}
			}
		}
	}
	for mask := 0; mask < 1<<uint(len(pairs)); mask++ {
		var edges []rEdge
		for i, p := range pairs {
			if mask&(1<<uint(i)) != 0 {
				edges = append(edges, p)
			}
		}
		checkGraph(ids, edges, capacities, seqs)
	}
	// FAMILY "both-history": the third mode of the API (DirectionBoth) as an EARLIER query of a history. What such a query
	// itself returns is not part of the statement ("both directions" are outbound and inbound); what the statement says is
	// that the outbound and inbound answers do not depend on the queries made before. Every sequence of a DirectionBoth
	// query followed by one or two directed queries, on every graph of the main enumeration with at most 3 nodes worth of
	// ids (the first three ids), capacities as above.
	{
		ids3 := ids
		if len(ids3) > 3 {
			ids3 = ids3[:3]
		}
		var pairs3 []rEdge
		for _, a := range ids3 {
			for _, b := range ids3 {
				pairs3 = append(pairs3, rEdge{a, b})
			}
		}
		var seqsB [][]rQuery
		for _, b0 := range ids3 {
			for _, q1 := range ids3 {
				for _, d1 := range []graph.Direction{graph.DirectionOutbound, graph.DirectionInbound} {
					seqsB = append(seqsB, []rQuery{{b0, graph.DirectionBoth}, {q1, d1}})
				}
			}
		}
		for mask := 0; mask < 1<<uint(len(pairs3)); mask++ {
			var edges []rEdge
			for i, p := range pairs3 {
				if mask&(1<<uint(i)) != 0 {
					edges = append(edges, p)
				}
			}
			checkGraph(ids3, edges, capacities, seqsB)
		}
	}
	// FAMILY "dag5": all 1024 acyclic digraphs on 5 nodes whose edges go from a lower to a higher id (diamonds over a
	// shared sink, forks, chains) x every sequence of two directed queries x capacities {1,2,3}: cache entries are evicted
	// and recomputed while other cursors are in flight.
	{
		ids5 := []uint64{2, 4, 6, 8, 10}
		var pairs5 []rEdge
		for i, a := range ids5 {
			for _, b := range ids5[i+1:] {
				pairs5 = append(pairs5, rEdge{a, b})
			}
		}
		var seqs5 [][]rQuery
		for _, q0 := range ids5 {
			for _, d0 := range []graph.Direction{graph.DirectionOutbound, graph.DirectionInbound} {
				for _, q1 := range ids5 {
					for _, d1 := range []graph.Direction{graph.DirectionOutbound, graph.DirectionInbound} {
						seqs5 = append(seqs5, []rQuery{{q0, d0}, {q1, d1}})
					}
				}
			}
		}
		for mask := 0; mask < 1<<uint(len(pairs5)); mask++ {
			var edges []rEdge
			for i, p := range pairs5 {
				if mask&(1<<uint(i)) != 0 {
					edges = append(edges, p)
				}
			}
			checkGraph(ids5, edges, []int{1, 2, 3}, seqs5)
		}
	}
	res := map[string]any{"name": "reach", "bound": fmt.Sprintf("all digraphs (self loops: %v) on %d nodes, query sequences up to length %d, capacities %v; + a DirectionBoth query before every directed query on all digraphs on 3 of the ids; + all 1024 forward-edge DAGs on 5 nodes x all pairs of directed queries x capacities 1,2,3", selfLoops, n, seqLen, capacities), "graphs": graphs, "cases": cases, "exhaustive": true, "failures": failures}
	out, _ := json.Marshal(res)
	fmt.Println("BOUNDED-RESULT " + string(out))
	if len(failures) > 0 {
		t.Fail()
	}
}
