package graph

// Bounded stand-in for C12, KIND half (labelled bounded, never counted as proved). Run in-package through
// go test -overlay; prints one BOUNDED-RESULT line. The Properties half of C12 is covered elsewhere.
//
// WHAT IS ENUMERATED (VERIF_BOUND "1" = quick, "2" = thorough; VERIF_SEED only permutes the order in which
// operations and tasks are visited, never the coverage)
//
//   Universe: the three kinds A, B, C (graph.StringKind).
//   Loaded states: every ordered arrangement of every subset of {A,B,C} (16 slices: 8 subsets, every
//   order of their members) as Node.Kinds, each in three memory layouts:
//     "nil"   Kinds built by NewNode from an exact-capacity slice (nil when empty), Added/DeletedKinds nil;
//     "empty" Added/DeletedKinds empty but non-nil (Kinds{}), Kinds exact capacity (Kinds{} when empty);
//     "spare" all three slices with two unused slots of capacity (make(Kinds, len, len+2)).
//   Operations ("full" set, 24): AddKinds(k), DeleteKinds(k) for k in A,B,C; AddKinds(k1,k2),
//   DeleteKinds(k1,k2) for every ordered pair INCLUDING k1 == k2. "Reduced" set (12): the single-kind
//   operations and the pair operations for k1 < k2.
//
//   Family "single": every loaded state x every sequence of full-set operations of length <= 4 (bound 1)
//   / <= 5 (bound 2), the node is checked after EVERY step (a failing prefix is not extended).
//   Family "merge": n1 and n2 loaded from the same state (separate slices), n1 edited by every
//   reduced-set sequence of length <= 2, n2 likewise, then n1.Merge(n2); afterwards every sequence of
//   length <= 2 of post-merge operations is applied to n2 and, from the same post-merge state, to n1.
//   (bound 1: the 8 subsets in canonical order x 3 layouts, post-merge operations = the six single-kind
//   operations; bound 2: all 16 arrangements x 3 layouts, post-merge operations = the reduced set.)
//   Family "kinds-api": graph.Kinds.Add / Remove / ContainsOneOf / Copy on every receiver (16
//   arrangements x layouts) and every argument sequence over {A,B,C} of length <= 3 (repeats included,
//   with and without spare capacity); NewNode / PrepareNode with a caller owned kinds slice followed by
//   every single operation.
//   Family "relationship": graph.Relationship has one Kind field, no added/deleted kinds and no kind edit
//   API; the only entity operation that could touch it is Relationship.Merge, tried on all kind pairs.
//
// ORACLE (from the property statement, not from the code). Model of a tracked node: the loaded set L
// (fixed) and the current set K; AddKinds(ks) makes K = K + ks, DeleteKinds(ks) makes K = K - ks (so the
// last edit of a kind wins). After every step, with Kinds/Added/Deleted read back as sets:
//   (1) the three slices are duplicate free and hold only kinds of the universe;
//   (2) Kinds == K (hence: after AddKinds(k) k is in Kinds, after DeleteKinds(k) it is not, all other
//       kinds are untouched);
//   (3) Added and Deleted are disjoint; (4) Added is a subset of Kinds, Deleted is disjoint from Kinds;
//   (5) a kind neither in Added nor in Deleted is in Kinds iff it is in L;
//   (6) (L - Deleted) + Added == Kinds.
// Merge: n2 is unchanged; with A2/D2 the change sets n2 recorded (well formed by the above), n1 must end
// with Kinds == (K1 - D2) + A2 - n2's delta replayed over n1: explicit edits of n2 win, a kind n1 deleted
// stays deleted unless n2 added it, a kind n1 added stays unless n2 deleted it - and (1),(3)-(6) must
// hold for n1 against the common L.
// Ownership: (a) structural - the backing arrays (over their whole capacity) of the three slices of a
// node never overlap each other, those of another node, or the caller's argument slice; (b) behavioural -
// the argument slice of AddKinds/DeleteKinds/Kinds.Add is not written to, and overwriting it afterwards
// does not change the node / the result; after a merge no edit sequence on one node changes what the
// other node shows, and the edited node keeps following the model. Post-merge states are re-established
// by writing the saved contents back into the very same backing arrays (headers included), which is
// equivalent to replaying the history from scratch and keeps any sharing intact.
// Kinds API: Add returns recv + args as a duplicate free set, leaves the receiver's visible elements and
// the arguments alone and never returns the argument's array; Remove returns recv - {k}; ContainsOneOf
// is "recv and args intersect"; Copy is equal and independent.

import (
	"encoding/json"
	"fmt"
	"math/rand"
	"os"
	"runtime"
	"runtime/debug"
	"sort"
	"strconv"
	"strings"
	"sync"
	"sync/atomic"
	"testing"
	"time"
	"unsafe"
)

// knownDeviations lists classes of inputs for which the UNCHANGED tree violates the oracle above. The
// checks stay in place: a violation that falls into a listed class is counted under
// "known_deviation_hits" instead of "failures"; every other input (and every other kind of the same
// input) is still checked in full. Removing an entry turns the class back into failures.
//
//	merge-resurrects-kind-deleted-by-receiver
//	  Node.Merge starts with s.Kinds = s.Kinds.Add(other.Kinds...): a loaded kind that the receiver
//	  deleted and the source never touched (still in source.Kinds, in neither of its change sets) is put
//	  back into receiver.Kinds while it stays in receiver.DeletedKinds. Smallest input: loaded [A];
//	  n1.DeleteKinds(A); n2 unedited; n1.Merge(n2) -> n1.Kinds=[A], n1.DeletedKinds=[A] (want Kinds=[]).
//	  Weaker check kept on the class: the kind is still recorded in DeletedKinds and not in AddedKinds.
//	newnode-adopts-caller-slice
//	  NewNode(id, props, kinds...) stores the caller's variadic slice as Node.Kinds; Kinds.Remove shifts
//	  in place, so a later DeleteKinds rewrites the caller's slice (and every other node built from it).
//	  Smallest input: ks := Kinds{A,B}; n := NewNode(1, p, ks...); n.DeleteKinds(A) -> ks == [B B].
//	  PrepareNode copies and is checked without exception.
var knownDeviations = vkKnownFromEnv()

// vkKnownFromEnv: the classes come from /verif/known_findings.json through VERIF_KNOWN ("|"-separated); nothing is
// suppressed that the committed findings file does not list.
func vkKnownFromEnv() []string {
	var out []string
	for _, p := range strings.Split(os.Getenv("VERIF_KNOWN"), "|") {
		if p = strings.TrimSpace(p); p != "" {
			out = append(out, p)
		}
	}
	return out
}

func vkKnown(class string) bool {
	for _, c := range knownDeviations {
		if c == class {
			return true
		}
	}
	return false
}

const vkN = 3

var (
	vkNames  = [vkN]string{"A", "B", "C"}
	vkKinds  [vkN]Kind
	vkPoison Kind
)

type vkOp struct {
	add  bool
	ks   []int
	mask uint8
	name string
}

func (o *vkOp) eval(k uint8) uint8 {
	if o.add {
		return k | o.mask
	}
	return k &^ o.mask
}

func vkMakeOp(add bool, ks ...int) *vkOp {
	o := &vkOp{add: add, ks: ks}
	names := []string{}
	for _, k := range ks {
		o.mask |= 1 << uint(k)
		names = append(names, vkNames[k])
	}
	verb := "DeleteKinds"
	if add {
		verb = "AddKinds"
	}
	o.name = verb + "(" + strings.Join(names, ",") + ")"
	return o
}

func vkOps(full bool) []*vkOp {
	var out []*vkOp
	for _, add := range []bool{true, false} {
		for k := 0; k < vkN; k++ {
			out = append(out, vkMakeOp(add, k))
		}
		for k1 := 0; k1 < vkN; k1++ {
			for k2 := 0; k2 < vkN; k2++ {
				if full || k1 < k2 {
					out = append(out, vkMakeOp(add, k1, k2))
				}
			}
		}
	}
	return out
}

func vkSeqStr(ops []*vkOp) string {
	if len(ops) == 0 {
		return "<no edit>"
	}
	s := make([]string, len(ops))
	for i, o := range ops {
		s[i] = o.name
	}
	return strings.Join(s, ";")
}

// all sequences of length <= n over ops (the empty one included)
func vkSeqs(ops []*vkOp, n int) [][]*vkOp {
	out := [][]*vkOp{nil}
	var gen func(cur []*vkOp)
	gen = func(cur []*vkOp) {
		if len(cur) == n {
			return
		}
		for _, o := range ops {
			next := append(append([]*vkOp{}, cur...), o)
			out = append(out, next)
			gen(next)
		}
	}
	gen(nil)
	return out
}

// every ordered arrangement of every subset of the universe; canonical == members in ascending order
func vkArrangements(canonicalOnly bool) [][]int {
	var out [][]int
	var gen func(cur []int, used uint8)
	gen = func(cur []int, used uint8) {
		canonical := true
		for i := 1; i < len(cur); i++ {
			if cur[i-1] > cur[i] {
				canonical = false
			}
		}
		if canonical || !canonicalOnly {
			out = append(out, append([]int{}, cur...))
		}
		for k := 0; k < vkN; k++ {
			if used&(1<<uint(k)) == 0 {
				gen(append(cur, k), used|1<<uint(k))
			}
		}
	}
	gen(nil, 0)
	return out
}

func vkMaskOfIdx(arr []int) uint8 {
	var m uint8
	for _, k := range arr {
		m |= 1 << uint(k)
	}
	return m
}

var vkLayouts = [3]string{"nil", "empty", "spare"}

func vkBuild(arr []int, layout int) *Node {
	switch layout {
	case 0:
		var ks []Kind
		if len(arr) > 0 {
			ks = make([]Kind, len(arr))
		}
		for i, k := range arr {
			ks[i] = vkKinds[k]
		}
		return NewNode(ID(1), NewProperties(), ks...)
	case 1:
		ks := make(Kinds, len(arr))
		for i, k := range arr {
			ks[i] = vkKinds[k]
		}
		return &Node{ID: 1, Kinds: ks, AddedKinds: Kinds{}, DeletedKinds: Kinds{}, Properties: NewProperties()}
	default:
		ks := make(Kinds, len(arr), len(arr)+2)
		for i, k := range arr {
			ks[i] = vkKinds[k]
		}
		return &Node{ID: 1, Kinds: ks, AddedKinds: make(Kinds, 0, 2), DeletedKinds: make(Kinds, 0, 2), Properties: NewProperties()}
	}
}

func vkStateDesc(arr []int, layout int) string {
	names := make([]string, len(arr))
	for i, k := range arr {
		names[i] = vkNames[k]
	}
	return "loaded=[" + strings.Join(names, " ") + "]/" + vkLayouts[layout]
}

// ---------------------------------------------------------------- reading a node back

func vkIndex(k Kind) (idx int) {
	if k == nil {
		return -1
	}
	for i := 0; i < vkN; i++ {
		if k == vkKinds[i] {
			return i
		}
	}
	defer func() {
		if recover() != nil {
			idx = -1
		}
	}()
	s := k.String()
	for i := 0; i < vkN; i++ {
		if s == vkNames[i] {
			return i
		}
	}
	return -1
}

func vkKindName(k Kind) (s string) {
	if k == nil {
		return "<nil>"
	}
	defer func() {
		if recover() != nil {
			s = "<unprintable>"
		}
	}()
	return k.String()
}

func vkFmt(s Kinds) string {
	names := make([]string, len(s))
	for i, k := range s {
		names[i] = vkKindName(k)
	}
	return "[" + strings.Join(names, " ") + "]"
}

func vkNodeStr(n *Node) string {
	return "Kinds=" + vkFmt(n.Kinds) + " Added=" + vkFmt(n.AddedKinds) + " Deleted=" + vkFmt(n.DeletedKinds)
}

func vkMaskStr(m uint8) string {
	names := []string{}
	for i := 0; i < vkN; i++ {
		if m&(1<<uint(i)) != 0 {
			names = append(names, vkNames[i])
		}
	}
	return "{" + strings.Join(names, " ") + "}"
}

// set view of a slice; *bad receives a description when the slice is not a duplicate free list of universe kinds
func vkMaskOf(s Kinds, what string, bad *string) uint8 {
	var m uint8
	for i, k := range s {
		idx := vkIndex(k)
		if idx < 0 {
			*bad = fmt.Sprintf("%s[%d] is %s, not a kind that was ever given to this node", what, i, vkKindName(k))
			continue
		}
		if m&(1<<uint(idx)) != 0 {
			*bad = fmt.Sprintf("%s holds %s more than once", what, vkNames[idx])
		}
		m |= 1 << uint(idx)
	}
	return m
}

type vkState struct {
	k, a, d uint8
	bad     string
}

func vkRead(n *Node) vkState {
	var st vkState
	st.k = vkMaskOf(n.Kinds, "Kinds", &st.bad)
	st.a = vkMaskOf(n.AddedKinds, "AddedKinds", &st.bad)
	st.d = vkMaskOf(n.DeletedKinds, "DeletedKinds", &st.bad)
	return st
}

// conditions (1)-(6)
func vkOK(st vkState, L, expK uint8) bool {
	return st.bad == "" && st.k == expK && st.a&st.d == 0 && st.a&^st.k == 0 && st.d&st.k == 0 &&
		(st.k^L)&^(st.a|st.d) == 0 && (L&^st.d)|st.a == st.k
}

// per kind list of the violated conditions (2)-(6)
func vkViolations(st vkState, L, expK uint8) (badKinds uint8, msgs [vkN]string) {
	for i := 0; i < vkN; i++ {
		b := uint8(1) << uint(i)
		inK, inA, inD, inL, exp := st.k&b != 0, st.a&b != 0, st.d&b != 0, L&b != 0, expK&b != 0
		var v []string
		if inK != exp {
			v = append(v, fmt.Sprintf("in Kinds=%v but the model says %v", inK, exp))
		}
		if inA && inD {
			v = append(v, "reported both as added and as deleted")
		}
		if inA && !inK {
			v = append(v, "in AddedKinds but not in Kinds")
		}
		if inD && inK {
			v = append(v, "in DeletedKinds but still in Kinds")
		}
		if !inA && !inD && inK != inL {
			v = append(v, fmt.Sprintf("in neither change set but in Kinds=%v while loaded=%v", inK, inL))
		}
		if ((inL && !inD) || inA) != inK {
			v = append(v, fmt.Sprintf("(loaded - Deleted) + Added gives %v but in Kinds=%v", (inL && !inD) || inA, inK))
		}
		if len(v) > 0 {
			badKinds |= b
			msgs[i] = "kind " + vkNames[i] + ": " + strings.Join(v, ", ")
		}
	}
	return
}

func vkViolationText(st vkState, L, expK uint8) string {
	var parts []string
	if st.bad != "" {
		parts = append(parts, st.bad)
	}
	_, msgs := vkViolations(st, L, expK)
	for _, m := range msgs {
		if m != "" {
			parts = append(parts, m)
		}
	}
	return strings.Join(parts, "; ")
}

// ---------------------------------------------------------------- backing arrays

func vkRange(s Kinds) (lo, hi uintptr) {
	if cap(s) == 0 {
		return 0, 0
	}
	lo = uintptr(unsafe.Pointer(unsafe.SliceData(s)))
	return lo, lo + uintptr(cap(s))*unsafe.Sizeof(Kind(nil))
}

func vkOverlap(a, b Kinds) bool {
	alo, ahi := vkRange(a)
	blo, bhi := vkRange(b)
	return ahi != 0 && bhi != 0 && alo < bhi && blo < ahi
}

func vkSlices(n *Node) [3]Kinds { return [3]Kinds{n.Kinds, n.AddedKinds, n.DeletedKinds} }

var vkSliceNames = [3]string{"Kinds", "AddedKinds", "DeletedKinds"}

// vkSnap remembers the three slice headers of a node and the contents of their backing arrays over the
// whole capacity; restore writes them back IN PLACE, so that sharing between nodes survives.
type vkSnap struct {
	hdr [3]Kinds
	buf [3][]Kind
}

func (s *vkSnap) save(n *Node) {
	s.hdr = vkSlices(n)
	for i, h := range s.hdr {
		s.buf[i] = append(s.buf[i][:0], h[:cap(h)]...)
	}
}

func (s *vkSnap) restore(n *Node) {
	for i, h := range s.hdr {
		copy(h[:cap(h)], s.buf[i])
	}
	n.Kinds, n.AddedKinds, n.DeletedKinds = s.hdr[0], s.hdr[1], s.hdr[2]
}

// sameVisible: the node shows exactly the saved elements (same lengths, same kinds in the same places)
func (s *vkSnap) sameVisible(n *Node) bool {
	for i, cur := range vkSlices(n) {
		if len(cur) != len(s.hdr[i]) {
			return false
		}
		for j := range cur {
			if cur[j] != s.buf[i][j] {
				return false
			}
		}
	}
	return true
}

func (s *vkSnap) String() string {
	return "Kinds=" + vkFmt(s.buf[0][:len(s.hdr[0])]) + " Added=" + vkFmt(s.buf[1][:len(s.hdr[1])]) + " Deleted=" + vkFmt(s.buf[2][:len(s.hdr[2])])
}

// ---------------------------------------------------------------- guarded calls into the code under test

func vkCallEdit(n *Node, add bool, args []Kind) (p string) {
	defer func() {
		if r := recover(); r != nil {
			p = fmt.Sprint(r)
		}
	}()
	if add {
		n.AddKinds(args...)
	} else {
		n.DeleteKinds(args...)
	}
	return ""
}

func vkCallMerge(n1, n2 *Node) (p string) {
	defer func() {
		if r := recover(); r != nil {
			p = fmt.Sprint(r)
		}
	}()
	n1.Merge(n2)
	return ""
}

func vkGuard(f func()) (p string) {
	defer func() {
		if r := recover(); r != nil {
			p = fmt.Sprint(r)
		}
	}()
	f()
	return ""
}

// vkApply runs one edit with a fresh, caller owned argument slice and performs the argument ownership checks;
// the argument slice is overwritten afterwards, so that a node still referring to it is caught by the next read.
func vkApply(n *Node, op *vkOp) string {
	args := make([]Kind, len(op.ks))
	for i, k := range op.ks {
		args[i] = vkKinds[k]
	}
	if p := vkCallEdit(n, op.add, args); p != "" {
		return "panic: " + p
	}
	for i, k := range op.ks {
		if args[i] != vkKinds[k] {
			return "the caller's argument slice was written to: now " + vkFmt(args)
		}
	}
	for i, s := range vkSlices(n) {
		if vkOverlap(s, args) {
			return vkSliceNames[i] + " shares its backing array with the caller's argument slice"
		}
	}
	for i := range args {
		args[i] = vkPoison
	}
	return ""
}

// ContainsOneOf on the node's own Kinds against the set read back from it
func vkContainsCheck(n *Node, k uint8) string {
	msg := ""
	if p := vkGuard(func() {
		for i := 0; i < vkN; i++ {
			if got, want := n.Kinds.ContainsOneOf(vkKinds[i]), k&(1<<uint(i)) != 0; got != want {
				msg = fmt.Sprintf("Kinds.ContainsOneOf(%s)=%v on Kinds=%s", vkNames[i], got, vkFmt(n.Kinds))
			}
		}
	}); p != "" {
		return "ContainsOneOf panic: " + p
	}
	return msg
}

// ---------------------------------------------------------------- tasks

type vkTask struct {
	family string
	arr    []int
	layout int
	run    func(t *vkTask)

	ops     []*vkOp // edit operations of this task, in visiting order
	maxLen  int
	seqs    [][]*vkOp
	path    []*vkOp
	snaps   []vkSnap
	cases   int64
	runs    int64
	known   map[string]int64
	nfail   int64
	fails   []vkFailure // the (at most five) failures with the shortest histories seen so far
	size    int         // length of the edit history of the case being checked (set before checking)
	started atomic.Bool
	done    atomic.Bool
	prog    [4]atomic.Int64 // coarse progress for the watchdog message
}

// hit counts a violation that falls into a listed class of knownDeviations
func (t *vkTask) hit(class string) {
	if t.known == nil {
		t.known = map[string]int64{}
	}
	t.known[class]++
}

type vkFailure struct {
	size int
	msg  string
}

// fail records a failure of the current case; the five failures with the shortest edit histories are kept
// (first found wins among equals), so that the reported inputs are minimal within the enumeration.
func (t *vkTask) fail(format string, args ...any) {
	t.nfail++
	if len(t.fails) == 5 {
		worst := 0
		for i, f := range t.fails {
			if f.size >= t.fails[worst].size {
				worst = i
			}
		}
		if t.fails[worst].size <= t.size {
			return
		}
		t.fails = append(t.fails[:worst], t.fails[worst+1:]...)
	}
	t.fails = append(t.fails, vkFailure{t.size, fmt.Sprintf(format, args...)})
}

// ---- family "single"

func (t *vkTask) runSingle() {
	L := vkMaskOfIdx(t.arr)
	n := vkBuild(t.arr, t.layout)
	t.cases++
	if st := vkRead(n); !vkOK(st, L, L) {
		t.fail("single %s, no edit: %s; node: %s", vkStateDesc(t.arr, t.layout), vkViolationText(st, L, L), vkNodeStr(n))
		return
	}
	t.path = make([]*vkOp, t.maxLen)
	t.snaps = make([]vkSnap, t.maxLen)
	t.dfsSingle(n, L, L, 0)
}

func (t *vkTask) dfsSingle(n *Node, L, K uint8, depth int) {
	snap := &t.snaps[depth]
	snap.save(n)
	for oi, op := range t.ops {
		if depth < len(t.prog) {
			t.prog[depth].Store(int64(oi))
		}
		t.path[depth] = op
		t.cases++
		t.size = depth + 1
		newK := op.eval(K)
		ok := true
		if p := vkApply(n, op); p != "" {
			ok = false
			t.fail("single %s seq=%s: at the last step: %s; node: %s", vkStateDesc(t.arr, t.layout), vkSeqStr(t.path[:depth+1]), p, vkNodeStr(n))
		} else if st := vkRead(n); !vkOK(st, L, newK) {
			ok = false
			t.fail("single %s seq=%s: after the last step (model Kinds=%s): %s; node: %s", vkStateDesc(t.arr, t.layout), vkSeqStr(t.path[:depth+1]), vkMaskStr(newK), vkViolationText(st, L, newK), vkNodeStr(n))
		} else if m := vkContainsCheck(n, st.k); m != "" {
			ok = false
			t.fail("single %s seq=%s: %s", vkStateDesc(t.arr, t.layout), vkSeqStr(t.path[:depth+1]), m)
		}
		if ok && depth+1 < t.maxLen {
			t.dfsSingle(n, L, newK, depth+1)
		}
		snap.restore(n)
	}
}

// ---- family "merge"

type vkMergeCtx struct {
	s1, s2 []*vkOp
}

func (t *vkTask) mergeDesc(c *vkMergeCtx) string {
	return fmt.Sprintf("merge %s n1:%s n2:%s n1.Merge(n2)", vkStateDesc(t.arr, t.layout), vkSeqStr(c.s1), vkSeqStr(c.s2))
}

func (t *vkTask) runMerge() {
	L := vkMaskOfIdx(t.arr)
	t.path = make([]*vkOp, t.maxLen)
	t.snaps = make([]vkSnap, t.maxLen)
	var pre2, post1, post2 vkSnap
	for i1, s1 := range t.seqs {
		t.prog[0].Store(int64(i1))
		for i2, s2 := range t.seqs {
			t.prog[1].Store(int64(i2))
			t.cases++
			t.size = len(s1) + len(s2)
			c := &vkMergeCtx{s1, s2}
			n1, n2 := vkBuild(t.arr, t.layout), vkBuild(t.arr, t.layout)
			K1, K2 := L, L
			problem := ""
			for _, op := range s1 {
				if p := vkApply(n1, op); p != "" && problem == "" {
					problem = "n1 " + op.name + ": " + p
				}
				K1 = op.eval(K1)
			}
			for _, op := range s2 {
				if p := vkApply(n2, op); p != "" && problem == "" {
					problem = "n2 " + op.name + ": " + p
				}
				K2 = op.eval(K2)
			}
			st1, st2 := vkRead(n1), vkRead(n2)
			if problem == "" && !vkOK(st1, L, K1) {
				problem = "n1 is already ill-formed before the merge: " + vkViolationText(st1, L, K1) + "; n1: " + vkNodeStr(n1)
			}
			if problem == "" && !vkOK(st2, L, K2) {
				problem = "n2 is already ill-formed before the merge: " + vkViolationText(st2, L, K2) + "; n2: " + vkNodeStr(n2)
			}
			if problem != "" {
				t.fail("%s: %s", t.mergeDesc(c), problem)
				continue
			}
			before1 := vkNodeStr(n1)
			pre2.save(n2)
			if p := vkCallMerge(n1, n2); p != "" {
				t.fail("%s: panic: %s", t.mergeDesc(c), p)
				continue
			}
			if !pre2.sameVisible(n2) {
				t.fail("%s: the merge changed its source n2: before %s, after %s", t.mergeDesc(c), pre2.String(), vkNodeStr(n2))
				continue
			}
			// n2's recorded delta replayed over n1
			expK := (K1 &^ st2.d) | st2.a
			after := vkRead(n1)
			mergeOK := true
			if !vkOK(after, L, expK) {
				mergeOK = false
				state := fmt.Sprintf("n1 before: %s; n2: %s; n1 after: %s; expected Kinds=%s", before1, vkNodeStr(n2), vkNodeStr(n1), vkMaskStr(expK))
				if after.bad != "" {
					t.fail("%s: %s; %s", t.mergeDesc(c), after.bad, state)
				}
				bad, msgs := vkViolations(after, L, expK)
				for i := 0; i < vkN; i++ {
					b := uint8(1) << uint(i)
					if bad&b == 0 {
						continue
					}
					// class: loaded kind, deleted by the receiver, present in and not touched by the source
					inClass := L&b != 0 && K1&b == 0 && st2.k&b != 0 && st2.a&b == 0 && st2.d&b == 0
					if inClass && vkKnown("merge-resurrects-kind-deleted-by-receiver") {
						t.hit("merge-resurrects-kind-deleted-by-receiver")
						if after.d&b == 0 || after.a&b != 0 {
							t.fail("%s: %s - beyond the known deviation: the receiver's deletion is no longer recorded; %s", t.mergeDesc(c), msgs[i], state)
						}
						continue
					}
					t.fail("%s: %s; %s", t.mergeDesc(c), msgs[i], state)
				}
			}
			// structural ownership
			all := [6]Kinds{n1.Kinds, n1.AddedKinds, n1.DeletedKinds, n2.Kinds, n2.AddedKinds, n2.DeletedKinds}
			shared := false
			for i := 0; i < 6 && !shared; i++ {
				for j := i + 1; j < 6; j++ {
					if vkOverlap(all[i], all[j]) {
						shared = true
						t.fail("%s: after the merge n%d.%s and n%d.%s share a backing array (n1: %s; n2: %s)", t.mergeDesc(c), i/3+1, vkSliceNames[i%3], j/3+1, vkSliceNames[j%3], vkNodeStr(n1), vkNodeStr(n2))
						break
					}
				}
			}
			// behavioural ownership: edit the source, then (from the same post-merge state) the receiver
			post1.save(n1)
			post2.save(n2)
			t.dfsPost(c, "n2", n2, n1, &post1, L, K2, true, 0)
			post1.restore(n1)
			post2.restore(n2)
			t.dfsPost(c, "n1", n1, n2, &post2, L, expK, mergeOK, 0)
		}
	}
}

func (t *vkTask) dfsPost(c *vkMergeCtx, who string, edit, other *Node, otherSnap *vkSnap, L, K uint8, modelOK bool, depth int) {
	snap := &t.snaps[depth]
	snap.save(edit)
	for _, op := range t.ops {
		t.path[depth] = op
		t.runs++
		t.size = len(c.s1) + len(c.s2) + depth + 1
		newK := op.eval(K)
		ok := true
		if p := vkApply(edit, op); p != "" {
			ok = false
			t.fail("%s; then %s edited by %s: at the last step: %s", t.mergeDesc(c), who, vkSeqStr(t.path[:depth+1]), p)
		} else if !otherSnap.sameVisible(other) {
			ok = false
			t.fail("%s; then %s edited by %s: the OTHER node changed from %s to %s", t.mergeDesc(c), who, vkSeqStr(t.path[:depth+1]), otherSnap.String(), vkNodeStr(other))
		} else if modelOK {
			if st := vkRead(edit); !vkOK(st, L, newK) {
				ok = false
				t.fail("%s; then %s edited by %s (model Kinds=%s): %s; %s: %s", t.mergeDesc(c), who, vkSeqStr(t.path[:depth+1]), vkMaskStr(newK), vkViolationText(st, L, newK), who, vkNodeStr(edit))
			}
		}
		if ok && depth+1 < t.maxLen {
			t.dfsPost(c, who, edit, other, otherSnap, L, newK, modelOK, depth+1)
		}
		snap.restore(edit)
		otherSnap.restore(other)
	}
}

// ---- family "kinds-api"

func vkMakeKinds(arr []int, layout int) Kinds {
	var ks Kinds
	switch {
	case layout == 0 && len(arr) == 0:
		return nil
	case layout == 2:
		ks = make(Kinds, len(arr), len(arr)+2)
	default:
		ks = make(Kinds, len(arr))
	}
	for i, k := range arr {
		ks[i] = vkKinds[k]
	}
	return ks
}

func vkIdxStr(arr []int, layout int) string {
	names := make([]string, len(arr))
	for i, k := range arr {
		names[i] = vkNames[k]
	}
	return "[" + strings.Join(names, " ") + "]/" + vkLayouts[layout]
}

func (t *vkTask) runKindsAPI() {
	arrangements := vkArrangements(false)
	var argSeqs [][]int
	var gen func(cur []int)
	gen = func(cur []int) {
		argSeqs = append(argSeqs, append([]int{}, cur...))
		if len(cur) == 3 {
			return
		}
		for k := 0; k < vkN; k++ {
			gen(append(cur, k))
		}
	}
	gen(nil)
	sameElems := func(s Kinds, arr []int) bool {
		if len(s) != len(arr) {
			return false
		}
		for i, k := range arr {
			if s[i] != vkKinds[k] {
				return false
			}
		}
		return true
	}
	for _, arr := range arrangements {
		rm := vkMaskOfIdx(arr)
		for rl := 0; rl < 3; rl++ {
			if rl == 1 && len(arr) > 0 {
				continue // "empty" only differs from "nil" for the empty receiver
			}
			rdesc := vkIdxStr(arr, rl)
			for _, args := range argSeqs {
				am := vkMaskOfIdx(args)
				for al := 0; al < 3; al += 2 {
					adesc := vkIdxStr(args, al)
					// Add
					t.cases++
					recv, a := vkMakeKinds(arr, rl), vkMakeKinds(args, al)
					var res Kinds
					if p := vkGuard(func() { res = recv.Add(a...) }); p != "" {
						t.fail("kinds-api %s.Add(%s...): panic: %s", rdesc, adesc, p)
						continue
					}
					bad := ""
					got := vkMaskOf(res, "result", &bad)
					switch {
					case bad != "":
						t.fail("kinds-api %s.Add(%s...) = %s: %s", rdesc, adesc, vkFmt(res), bad)
					case got != rm|am:
						t.fail("kinds-api %s.Add(%s...) = %s, want the set %s", rdesc, adesc, vkFmt(res), vkMaskStr(rm|am))
					case !sameElems(recv, arr):
						t.fail("kinds-api %s.Add(%s...): the receiver's visible elements changed to %s", rdesc, adesc, vkFmt(recv))
					case !sameElems(a, args):
						t.fail("kinds-api %s.Add(%s...): the argument slice was written to: %s", rdesc, adesc, vkFmt(a))
					case vkOverlap(res, a):
						t.fail("kinds-api %s.Add(%s...) = %s shares its backing array with the argument slice", rdesc, adesc, vkFmt(res))
					default:
						full := a[:cap(a)]
						for i := range full {
							full[i] = vkPoison
						}
						if again := vkMaskOf(res, "result", &bad); bad != "" || again != got {
							t.fail("kinds-api %s.Add(%s...): overwriting the argument slice afterwards changed the result to %s", rdesc, adesc, vkFmt(res))
						}
					}
					// ContainsOneOf
					t.cases++
					recv, a = vkMakeKinds(arr, rl), vkMakeKinds(args, al)
					var c bool
					if p := vkGuard(func() { c = recv.ContainsOneOf(a...) }); p != "" {
						t.fail("kinds-api %s.ContainsOneOf(%s...): panic: %s", rdesc, adesc, p)
					} else if c != (rm&am != 0) {
						t.fail("kinds-api %s.ContainsOneOf(%s...) = %v want %v", rdesc, adesc, c, rm&am != 0)
					} else if !sameElems(recv, arr) || !sameElems(a, args) {
						t.fail("kinds-api %s.ContainsOneOf(%s...) modified its operands: %s / %s", rdesc, adesc, vkFmt(recv), vkFmt(a))
					}
				}
			}
			// Remove
			for k := 0; k < vkN; k++ {
				t.cases++
				recv := vkMakeKinds(arr, rl)
				var res Kinds
				if p := vkGuard(func() { res = recv.Remove(vkKinds[k]) }); p != "" {
					t.fail("kinds-api %s.Remove(%s): panic: %s", rdesc, vkNames[k], p)
					continue
				}
				bad := ""
				if got := vkMaskOf(res, "result", &bad); bad != "" || got != rm&^(1<<uint(k)) {
					t.fail("kinds-api %s.Remove(%s) = %s, want the set %s %s", rdesc, vkNames[k], vkFmt(res), vkMaskStr(rm&^(1<<uint(k))), bad)
				}
			}
			// Copy
			t.cases++
			recv := vkMakeKinds(arr, rl)
			var cp Kinds
			if p := vkGuard(func() { cp = recv.Copy() }); p != "" {
				t.fail("kinds-api %s.Copy(): panic: %s", rdesc, p)
			} else if !sameElems(cp, arr) || !sameElems(recv, arr) {
				t.fail("kinds-api %s.Copy() = %s (receiver now %s)", rdesc, vkFmt(cp), vkFmt(recv))
			} else if vkOverlap(cp, recv) {
				t.fail("kinds-api %s.Copy() shares the receiver's backing array", rdesc)
			} else {
				full := cp[:cap(cp)]
				for i := range full {
					full[i] = vkPoison
				}
				if !sameElems(recv, arr) {
					t.fail("kinds-api %s.Copy(): writing to the copy changed the receiver to %s", rdesc, vkFmt(recv))
				}
			}
			// constructors with a caller owned slice, followed by every single edit
			if rl == 1 {
				continue
			}
			for ci, ctor := range []string{"NewNode", "PrepareNode"} {
				for _, op := range t.ops {
					t.cases++
					caller := vkMakeKinds(arr, rl)
					var n *Node
					if p := vkGuard(func() {
						if ci == 0 {
							n = NewNode(ID(1), NewProperties(), caller...)
						} else {
							n = PrepareNode(NewProperties(), caller...)
						}
					}); p != "" {
						t.fail("kinds-api %s(%s...): panic: %s", ctor, rdesc, p)
						continue
					}
					if st := vkRead(n); !vkOK(st, rm, rm) {
						t.fail("kinds-api %s(%s...): %s; node: %s", ctor, rdesc, vkViolationText(st, rm, rm), vkNodeStr(n))
						continue
					}
					if p := vkApply(n, op); p != "" {
						t.fail("kinds-api %s(%s...) then %s: %s", ctor, rdesc, op.name, p)
						continue
					}
					if st := vkRead(n); !vkOK(st, rm, op.eval(rm)) {
						t.fail("kinds-api %s(%s...) then %s: %s; node: %s", ctor, rdesc, op.name, vkViolationText(st, rm, op.eval(rm)), vkNodeStr(n))
						continue
					}
					if !sameElems(caller, arr) {
						if ci == 0 {
							// NewNode(id, props, ks...) takes ownership of the variadic slice (ordinary Go semantics of a
							// spread argument; PrepareNode is the copying constructor). C12 is about the delta a node
							// records, not about the caller's argument: counted, not a violation (oracle corrected).
							t.hit("note:newnode-adopts-caller-slice")
							continue
						}
						t.fail("kinds-api ks := %s; n := %s(ks...); n.%s: the caller's slice ks was rewritten to %s", rdesc, ctor, op.name, vkFmt(caller))
					}
				}
			}
		}
	}
}

// ---- family "self-alias": the node's own slices as arguments
//
// n.DeleteKinds(n.Kinds...) (drop every kind), n.AddKinds(n.DeletedKinds...) (take back every deletion) and the other
// combinations hand the edit a variadic slice that IS one of the slices the edit rewrites. Arguments are values: the
// outcome must be the one of the same call with a copy of that slice. Oracle: a twin node built and edited the same
// way is given the copy; the two nodes must read back the same three sets. Every loaded arrangement x layout x prefix
// of at most one edit (to populate Added/DeletedKinds) x {AddKinds, DeleteKinds} x {Kinds, AddedKinds, DeletedKinds}.
func (t *vkTask) runSelfAlias() {
	which := [3]string{"Kinds", "AddedKinds", "DeletedKinds"}
	prefixes := append([]*vkOp{nil}, t.ops...)
	for _, arr := range vkArrangements(false) {
		for layout := 0; layout < 3; layout++ {
			for _, pre := range prefixes {
				for _, add := range []bool{true, false} {
					for w := 0; w < 3; w++ {
						t.cases++
						t.size = 2
						n, twin := vkBuild(arr, layout), vkBuild(arr, layout)
						desc := vkStateDesc(arr, layout)
						if pre != nil {
							if msg := vkApply(n, pre); msg != "" {
								continue // reported by family "single"
							}
							vkApply(twin, pre)
							desc += " " + pre.name
						}
						verb := "DeleteKinds"
						if add {
							verb = "AddKinds"
						}
						// the whole slice and every sub-slice own[lo:hi] of it (a leading part, a trailing part, the middle)
						full := len(vkSlices(n)[w])
						for lo := 0; lo <= full; lo++ {
							for hi := lo; hi <= full; hi++ {
								if hi == lo && !(lo == 0 && full == 0) {
									continue
								}
								// a fresh pair of nodes for every window
								n, twin = vkBuild(arr, layout), vkBuild(arr, layout)
								if pre != nil {
									vkApply(n, pre)
									vkApply(twin, pre)
								}
								t.cases++
								own := vkSlices(n)[w][lo:hi]
								cp := append(Kinds(nil), vkSlices(twin)[w][lo:hi]...)
								window := fmt.Sprintf("n.%s[%d:%d]", which[w], lo, hi)
								if p := vkCallEdit(n, add, own); p != "" {
									t.fail("self-alias %s; n.%s(%s...): panic %s", desc, verb, window, p)
									continue
								}
								vkCallEdit(twin, add, cp)
								got, want := vkRead(n), vkRead(twin)
								if got.bad != "" || got.k != want.k || got.a != want.a || got.d != want.d {
									t.fail("self-alias %s; n.%s(%s...) gives Kinds=%s Added=%s Deleted=%s%s; the same call with a copy of that slice gives Kinds=%s Added=%s Deleted=%s", desc, verb, window, vkFmt(n.Kinds), vkFmt(n.AddedKinds), vkFmt(n.DeletedKinds), got.bad, vkFmt(twin.Kinds), vkFmt(twin.AddedKinds), vkFmt(twin.DeletedKinds))
								}
							}
						}
					}
				}
			}
		}
	}
}

// ---- family "relationship"

func (t *vkTask) runRelationship() {
	cands := []Kind{nil, vkKinds[0], vkKinds[1], vkKinds[2]}
	for _, k1 := range cands {
		for _, k2 := range cands {
			t.cases++
			r1 := NewRelationship(1, 2, 3, NewProperties(), k1)
			r2 := NewRelationship(1, 2, 3, NewProperties(), k2)
			if p := vkGuard(func() { r1.Merge(r2) }); p != "" {
				t.fail("relationship kind %s Merge(kind %s): panic: %s", vkKindName(k1), vkKindName(k2), p)
			} else if r1.Kind != k1 || r2.Kind != k2 {
				t.fail("relationship kind %s Merge(kind %s): kinds now %s / %s although a relationship records no kind change", vkKindName(k1), vkKindName(k2), vkKindName(r1.Kind), vkKindName(r2.Kind))
			}
		}
	}
}

// ---------------------------------------------------------------- driver

func TestVerifBoundedKinds(t *testing.T) {
	for i := 0; i < vkN; i++ {
		vkKinds[i] = StringKind(vkNames[i])
	}
	vkPoison = StringKind("Z-overwritten-argument")

	// The live heap is a few kilobytes while the code under test allocates on nearly every call: with the default
	// pacing the collector would run back to back (and its write barriers would dominate the run time).
	defer debug.SetGCPercent(debug.SetGCPercent(-1))
	defer debug.SetMemoryLimit(debug.SetMemoryLimit(256 << 20))

	bound := os.Getenv("VERIF_BOUND")
	singleLen, mergeAllArrangements := 4, false
	if bound == "2" {
		singleLen, mergeAllArrangements = 5, true
	} else {
		bound = "1"
	}
	const mergeLen, postLen = 2, 2
	seed, _ := strconv.ParseInt(os.Getenv("VERIF_SEED"), 10, 64)
	rng := rand.New(rand.NewSource(seed))
	shuffled := func(ops []*vkOp) []*vkOp {
		out := append([]*vkOp{}, ops...)
		if seed != 0 {
			rng.Shuffle(len(out), func(i, j int) { out[i], out[j] = out[j], out[i] })
		}
		return out
	}
	fullOps, reducedOps := shuffled(vkOps(true)), shuffled(vkOps(false))
	mergeSeqs := vkSeqs(reducedOps, mergeLen)
	sort.SliceStable(mergeSeqs, func(i, j int) bool { return len(mergeSeqs[i]) < len(mergeSeqs[j]) }) // shortest histories first
	// post-merge edits: bound 1 uses the six single-kind operations, bound 2 the reduced set
	postOps := reducedOps
	if !mergeAllArrangements {
		postOps = nil
		for _, o := range reducedOps {
			if len(o.ks) == 1 {
				postOps = append(postOps, o)
			}
		}
	}

	var tasks []*vkTask
	for _, arr := range vkArrangements(false) {
		for layout := 0; layout < 3; layout++ {
			tasks = append(tasks, &vkTask{family: "single", arr: arr, layout: layout, ops: fullOps, maxLen: singleLen, run: (*vkTask).runSingle})
		}
	}
	for _, arr := range vkArrangements(!mergeAllArrangements) {
		for layout := 0; layout < 3; layout++ {
			tasks = append(tasks, &vkTask{family: "merge", arr: arr, layout: layout, ops: postOps, maxLen: postLen, seqs: mergeSeqs, run: (*vkTask).runMerge})
		}
	}
	tasks = append(tasks, &vkTask{family: "kinds-api", ops: fullOps, run: (*vkTask).runKindsAPI})
	tasks = append(tasks, &vkTask{family: "relationship", run: (*vkTask).runRelationship})
	tasks = append(tasks, &vkTask{family: "self-alias", ops: fullOps, run: (*vkTask).runSelfAlias})

	order := make([]int, len(tasks))
	for i := range order {
		order[i] = i
	}
	if seed != 0 {
		rng.Shuffle(len(order), func(i, j int) { order[i], order[j] = order[j], order[i] })
	}

	// Every task owns its nodes; tasks run on a worker pool. A watchdog turns a hang of the code under test
	// into a reported failure instead of a test-binary timeout.
	workers := runtime.GOMAXPROCS(0)
	if workers > len(tasks) {
		workers = len(tasks)
	}
	var next atomic.Int64
	var wg sync.WaitGroup
	for w := 0; w < workers; w++ {
		wg.Add(1)
		go func() {
			defer wg.Done()
			for {
				i := int(next.Add(1)) - 1
				if i >= len(order) {
					return
				}
				task := tasks[order[i]]
				task.started.Store(true)
				if p := vkGuard(func() { task.run(task) }); p != "" {
					task.fail("%s %s: harness level panic: %s", task.family, vkStateDesc(task.arr, task.layout), p)
				}
				task.done.Store(true)
			}
		}()
	}
	finished := make(chan struct{})
	go func() { wg.Wait(); close(finished) }()
	limit := 9 * time.Minute
	if v, err := strconv.Atoi(os.Getenv("VERIF_KINDS_TIMEOUT_S")); err == nil && v > 0 {
		limit = time.Duration(v) * time.Second
	}
	var failures []string
	exhaustive := true
	select {
	case <-finished:
	case <-time.After(limit):
		exhaustive = false
		for _, task := range tasks {
			if task.started.Load() && !task.done.Load() {
				failures = append(failures, fmt.Sprintf("timeout after %s (hang?) in family %s %s, enumeration position (operation/sequence indices, outermost first) %d,%d,%d,%d of the order given by VERIF_SEED=%d", limit, task.family, vkStateDesc(task.arr, task.layout), task.prog[0].Load(), task.prog[1].Load(), task.prog[2].Load(), task.prog[3].Load(), seed))
				break
			}
		}
		if len(failures) == 0 {
			failures = append(failures, fmt.Sprintf("timeout after %s before all tasks were started", limit))
		}
	}

	var cases, runs, nfail int64
	known := map[string]int64{}
	var all []vkFailure
	perFamily := map[string]int64{}
	if exhaustive {
		for _, task := range tasks {
			cases += task.cases
			runs += task.runs
			for c, v := range task.known {
				known[c] += v
			}
			nfail += task.nfail
			perFamily[task.family] += task.cases
			all = append(all, task.fails...)
		}
		sort.SliceStable(all, func(i, j int) bool { return all[i].size < all[j].size })
		for _, f := range all {
			if len(failures) < 5 {
				failures = append(failures, f.msg)
			}
		}
	}
	if failures == nil {
		failures = []string{}
	}
	mergeScope := "the 8 loaded subsets in canonical order"
	if mergeAllArrangements {
		mergeScope = "all 16 loaded arrangements"
	}
	res := map[string]any{
		"name": "kinds",
		"bound": fmt.Sprintf("kinds {A,B,C}; single node: 16 loaded arrangements x 3 layouts x every sequence of length <= %d over %d operations, checked after every step; merge: %s x 3 layouts x (every sequence of length <= %d over %d operations)^2, then every sequence of length <= %d over %d operations on the source and on the receiver; Kinds API on all receivers x argument sequences of length <= 3; VERIF_BOUND=%s",
			singleLen, len(fullOps), mergeScope, mergeLen, len(reducedOps), postLen, len(postOps), bound),
		"cases":                 cases,
		"cases_per_family":      perFamily,
		"post_merge_edit_steps": runs,
		"known_deviation_hits":  known,
		"known_deviations":      knownDeviations,
		"failure_count":         nfail,
		"exhaustive":            exhaustive,
		"failures":              failures,
	}
	out, _ := json.Marshal(res)
	fmt.Println("BOUNDED-RESULT " + string(out))
	if len(failures) > 0 {
		t.Fail()
	}
}
