package test

// Bounded stand-in for C04 (labelled bounded, never counted as proved): hostile text in every
// user-controlled position of an accepted query, pushed through the REAL pipeline (ParseCypher -> Translate
// -> format) and re-read with an independent lexer written from PostgreSQL's lexical rules
// (standard_conforming_strings = on). For every value the token sequence outside the value's own token must
// equal the sequence obtained for a benign value, and the value the lexer reads back must equal the value
// the Cypher text denoted. Values: ALL strings up to length VERIF_BOUND over the alphabet
// { ' " \ ; - a space $ } plus a few crafted longer ones.
//
// Extension (same oracle, four more input classes; a class named in VERIF_KNOWN ("|"-separated) is counted under
// known_deviation_hits instead of failures):
//   long-values          values of length 60..70 and 120..130 with a quote character or a backslash at every position 58..68
//   long-lists           list literals and list-valued parameters with 1, 2, 16, 17, 18 and 40 hostile string elements
//   fragment-whitespace  values with whitespace in every position that is inlined into the SQL text DAWGS hands to its
//                        server-side traversal functions (nested quoting levels are decoded)
//   param-types          parameters of every Go type in comparison, IN and property-map positions
//   param-float-nonfinite  the NaN / +Inf / -Inf members of param-types (their own class so that they can be triaged apart)
// VERIF_SEED only permutes the order of the added cases; VERIF_C04_TIMING=1 prints the time per phase to stderr.

import (
	"context"
	"encoding/json"
	"fmt"
	"math"
	"math/rand"
	"os"
	"reflect"
	"sort"
	"strconv"
	"strings"
	"testing"
	"time"

	"github.com/specterops/dawgs/cypher/frontend"
	"github.com/specterops/dawgs/cypher/models/pgsql/translate"
)

type sqlTok struct {
	kind string // ident qident string number op param comment
	text string // identifier text / decoded string value / operator
}

// lexSQL is an independent re-implementation of the PostgreSQL scanner for the token classes DAWGS emits.
func lexSQL(s string) ([]sqlTok, error) {
	var out []sqlTok
	i := 0
	isIdentStart := func(c byte) bool { return c == '_' || c >= 'a' && c <= 'z' || c >= 'A' && c <= 'Z' || c >= 0x80 }
	isIdentPart := func(c byte) bool { return isIdentStart(c) || c >= '0' && c <= '9' || c == '$' }
	for i < len(s) {
		c := s[i]
		switch {
		case c == ' ' || c == '\t' || c == '\n' || c == '\r' || c == '\f':
			i++
		case c == '-' && i+1 < len(s) && s[i+1] == '-':
			// scan.l: comment = "--"{non_newline}*, non_newline = [^\n\r]: a carriage return ends the comment too
			for i < len(s) && s[i] != '\n' && s[i] != '\r' {
				i++
			}
			out = append(out, sqlTok{"comment", ""})
		case c == '/' && i+1 < len(s) && s[i+1] == '*':
			depth := 1
			i += 2
			for i < len(s) && depth > 0 {
				if strings.HasPrefix(s[i:], "/*") {
					depth++
					i += 2
				} else if strings.HasPrefix(s[i:], "*/") {
					depth--
					i += 2
				} else {
					i++
				}
			}
			if depth > 0 {
				return out, fmt.Errorf("unterminated comment")
			}
			out = append(out, sqlTok{"comment", ""})
		case c == '\'' || ((c == 'E' || c == 'e') && i+1 < len(s) && s[i+1] == '\''):
			escapes := false
			if c != '\'' {
				escapes = true
				i++
			}
			i++
			var val strings.Builder
			closed := false
			for i < len(s) {
				if s[i] == '\'' {
					if i+1 < len(s) && s[i+1] == '\'' {
						val.WriteByte('\'')
						i += 2
						continue
					}
					i++
					closed = true
					break
				}
				if escapes && s[i] == '\\' && i+1 < len(s) {
					val.WriteByte(s[i+1])
					i += 2
					continue
				}
				val.WriteByte(s[i])
				i++
			}
			if !closed {
				return out, fmt.Errorf("unterminated string literal")
			}
			out = append(out, sqlTok{"string", val.String()})
		case c == '"':
			i++
			var val strings.Builder
			closed := false
			for i < len(s) {
				if s[i] == '"' {
					if i+1 < len(s) && s[i+1] == '"' {
						val.WriteByte('"')
						i += 2
						continue
					}
					i++
					closed = true
					break
				}
				val.WriteByte(s[i])
				i++
			}
			if !closed {
				return out, fmt.Errorf("unterminated quoted identifier")
			}
			out = append(out, sqlTok{"qident", val.String()})
		case c == '$' && i+1 < len(s) && (s[i+1] == '$' || isIdentStart(s[i+1])):
			// dollar quoting $tag$ ... $tag$
			j := i + 1
			for j < len(s) && isIdentPart(s[j]) && s[j] != '$' {
				j++
			}
			if j < len(s) && s[j] == '$' {
				tag := s[i : j+1]
				end := strings.Index(s[j+1:], tag)
				if end < 0 {
					return out, fmt.Errorf("unterminated dollar quote")
				}
				out = append(out, sqlTok{"string", s[j+1 : j+1+end]})
				i = j + 1 + end + len(tag)
			} else {
				out = append(out, sqlTok{"op", "$"})
				i++
			}
		case c == '$' && i+1 < len(s) && s[i+1] >= '0' && s[i+1] <= '9':
			j := i + 1
			for j < len(s) && s[j] >= '0' && s[j] <= '9' {
				j++
			}
			out = append(out, sqlTok{"param", s[i:j]})
			i = j
		case c == '@' && i+1 < len(s) && isIdentStart(s[i+1]):
			j := i + 1
			for j < len(s) && isIdentPart(s[j]) {
				j++
			}
			out = append(out, sqlTok{"param", s[i:j]})
			i = j
		case isIdentStart(c):
			j := i
			for j < len(s) && isIdentPart(s[j]) {
				j++
			}
			out = append(out, sqlTok{"ident", strings.ToLower(s[i:j])})
			i = j
		case c >= '0' && c <= '9':
			j := i
			for j < len(s) && (s[j] >= '0' && s[j] <= '9' || s[j] == '.') {
				j++
			}
			out = append(out, sqlTok{"number", s[i:j]})
			i = j
		default:
			out = append(out, sqlTok{"op", string(c)})
			i++
		}
	}
	return out, nil
}

// likeDecode reads a LIKE pattern with PostgreSQL's rules (default escape character backslash): shape is the pattern
// with every maximal run of literal characters written as v and wildcards kept ("v%", "%v", "%v%", "v_v", ...), lit is
// the literal text (runs joined); ok is false when the pattern ends in a lone escape character.
func likeDecode(p string) (shape, lit string, ok bool) {
	var sb, lb strings.Builder
	inLit := false
	for i := 0; i < len(p); i++ {
		c := p[i]
		switch {
		case c == '\\':
			if i+1 >= len(p) {
				return "", "", false
			}
			i++
			lb.WriteByte(p[i])
			if !inLit {
				sb.WriteByte('v')
				inLit = true
			}
		case c == '%' || c == '_':
			sb.WriteByte(c)
			inLit = false
		default:
			lb.WriteByte(c)
			if !inLit {
				sb.WriteByte('v')
				inLit = true
			}
		}
	}
	return sb.String(), lb.String(), true
}

// cypher string literal for value v (single quoted, backslash escapes)
func cyString(v string) string {
	r := strings.NewReplacer(`\`, `\\`, `'`, `\'`)
	return "'" + r.Replace(v) + "'"
}

func cyBacktick(v string) string { return "`" + strings.ReplaceAll(v, "`", "``") + "`" }

func translateToSQL(q string, params map[string]any) (sqlText string, rerr error) {
	defer func() {
		if r := recover(); r != nil {
			sqlText, rerr = "", fmt.Errorf("PANIC: %v", r)
		}
	}()
	model, err := frontend.ParseCypher(frontend.NewContext(), q)
	if err != nil {
		return "", err
	}
	res, err := translate.Translate(context.Background(), model, newKindMapper(), params, translate.DefaultGraphID)
	if err != nil {
		return "", err
	}
	return translate.Translated(res)
}

// driverStatement is what drivers/pg sends: translate.FromCypher (Cypher text as a leading comment + statement).
func driverStatement(q string) (sqlText string, rerr error) {
	defer func() {
		if r := recover(); r != nil {
			sqlText, rerr = "", fmt.Errorf("PANIC: %v", r)
		}
	}()
	model, err := frontend.ParseCypher(frontend.NewContext(), q)
	if err != nil {
		return "", err
	}
	formatted, err := translate.FromCypher(context.Background(), model, newKindMapper(), false, translate.DefaultGraphID)
	if err != nil {
		return "", err
	}
	return formatted.Statement, nil
}

func TestVerifBoundedSQLText(t *testing.T) {
	maxLen := 2
	if v, err := strconv.Atoi(os.Getenv("VERIF_BOUND")); err == nil && v > 0 {
		maxLen = v
	}
	alphabet := []string{"'", `"`, `\`, ";", "-", "a", " ", "$"}
	var values []string
	var gen func(cur string, n int)
	gen = func(cur string, n int) {
		if len(cur) > 0 {
			values = append(values, cur)
		}
		if n == 0 {
			return
		}
		for _, a := range alphabet {
			gen(cur+a, n-1)
		}
	}
	gen("", maxLen)
	generated := len(values)
	values = append(values, "x'; drop table node; --", `x\'; select 1; --`, `x"; select 1; --`, "a$$b", "$q$x$q$", "/* c */", "x' or '1'='1", "é'ü", "'' ''",
		// backticks (a decoded name may itself begin and end with one), LIKE's own special characters
		"`", "``", "`a`", "`a", "a`", "a`b", "`x``y`", "```", "%", "_", `\%`, `a\`, `\a`, `a\b`, "a%b_c", `%\`, `C:\Users\`)
	type position struct {
		name  string
		query func(v string) (string, map[string]any)
		// how the value must come back: "string" = the decoded value of exactly one string token; "ident" = one (quoted) identifier token
		want string
	}
	positions := []position{
		{"string literal", func(v string) (string, map[string]any) {
			return "match (n) where n.name = " + cyString(v) + " return n", nil
		}, "string"},
		{"property key", func(v string) (string, map[string]any) {
			return "match (n) where n." + cyBacktick(v) + " = 1 return n", nil
		}, "string"},
		{"map key", func(v string) (string, map[string]any) {
			return "match (n {" + cyBacktick(v) + ": 1}) return n", nil
		}, "string"},
		{"result alias", func(v string) (string, map[string]any) {
			return "match (n) return n.name as " + cyBacktick(v), nil
		}, "ident"},
		{"result alias used in order by", func(v string) (string, map[string]any) {
			return "match (n) return n.name as " + cyBacktick(v) + " order by " + cyBacktick(v), nil
		}, "free"},
		{"aggregate alias used in order by", func(v string) (string, map[string]any) {
			return "match (n)-[]->(m) with n, count(m) as " + cyBacktick(v) + " return n, " + cyBacktick(v) + " order by " + cyBacktick(v) + " desc limit 5", nil
		}, "free"},
		{"count alias of the aggregate traversal shape", func(v string) (string, map[string]any) {
			return "match (n:NodeKind1) match (n)-[:EdgeKind1*1..]->(m:NodeKind2) with n, count(m) as " + cyBacktick(v) + " return n, " + cyBacktick(v) + " order by " + cyBacktick(v) + " desc limit 5", nil
		}, "free"},
		{"result alias inside an order by expression", func(v string) (string, map[string]any) {
			return "match (n) return n.name as " + cyBacktick(v) + " order by toLower(" + cyBacktick(v) + ")", nil
		}, "free"},
		{"result alias in a parenthesised order by key", func(v string) (string, map[string]any) {
			return "match (n) return n.name as " + cyBacktick(v) + " order by (" + cyBacktick(v) + ") + 'x' desc", nil
		}, "free"},
		{"variable name", func(v string) (string, map[string]any) {
			return "match (" + cyBacktick(v) + ") return " + cyBacktick(v), nil
		}, "free"},
		{"with alias", func(v string) (string, map[string]any) {
			return "match (n) with n.name as " + cyBacktick(v) + " return " + cyBacktick(v), nil
		}, "free"},
		{"kind name", func(v string) (string, map[string]any) {
			return "match (n:" + cyBacktick(v) + ") return n", nil
		}, "free"},
		{"relationship kind", func(v string) (string, map[string]any) {
			return "match (a)-[r:" + cyBacktick(v) + "]->(b) return a", nil
		}, "free"},
		{"string in list", func(v string) (string, map[string]any) {
			return "match (n) where n.name in [" + cyString(v) + ", 'b'] return n", nil
		}, "string"},
		{"starts with", func(v string) (string, map[string]any) {
			return "match (n) where n.name starts with " + cyString(v) + " return n", nil
		}, "like:v%"},
		{"ends with", func(v string) (string, map[string]any) {
			return "match (n) where n.name ends with " + cyString(v) + " return n", nil
		}, "like:%v"},
		{"contains", func(v string) (string, map[string]any) {
			return "match (n) where n.name contains " + cyString(v) + " return n", nil
		}, "like:%v%"},
		{"starts with under not, second predicate", func(v string) (string, map[string]any) {
			return "match (n) where n.a = 1 and not n.name starts with " + cyString(v) + " return n", nil
		}, "like:v%"},
	}
	skeleton := func(toks []sqlTok) string {
		var b strings.Builder
		for _, tk := range toks {
			switch tk.kind {
			case "string":
				b.WriteString("S ")
			case "qident":
				b.WriteString("I ")
			case "comment":
			default:
				b.WriteString(tk.kind + ":" + tk.text + " ")
			}
		}
		return b.String()
	}
	var failures []string
	failed := map[string]bool{}
	fail := func(pos, format string, args ...any) {
		if !failed[pos] && len(failures) < 8 {
			failed[pos] = true
			failures = append(failures, pos+": "+fmt.Sprintf(format, args...))
		}
	}
	cases := 0
	perPosition := map[string]int{}
	known := map[string]bool{}
	for _, k := range strings.Split(os.Getenv("VERIF_KNOWN"), "|") {
		if k = strings.TrimSpace(k); k != "" {
			known[k] = true
		}
	}
	knownHits := map[string]int{}
	// report: a violation found in one of the added classes (class "" = the original scope, never suppressed)
	report := func(class, pos, format string, args ...any) {
		if class != "" && known[class] {
			knownHits[class]++
			return
		}
		if class != "" {
			pos = class + "/" + pos
		}
		fail(pos, format, args...)
	}
	sweep := func(class string, values []string) {
		prefix := ""
		if class != "" {
			prefix = class + "/"
		}
		for _, pos := range positions {
			// benign reference: the skeleton for a plain value; unquoted identifiers count as identifier slots
			refQ, refP := pos.query("benign")
			refSQL, err := translateToSQL(refQ, refP)
			if err != nil {
				perPosition[prefix+pos.name+" (never reaches SQL text: "+err.Error()+")"] = 0
				continue
			}
			refToks, err := lexSQL(refSQL)
			if err != nil {
				report(class, pos.name, "benign SQL does not lex: %v", err)
				continue
			}
			refSkel := skeleton(refToks)
			refSkel = strings.ReplaceAll(refSkel, "ident:benign ", "I ")
			for _, v := range values {
				q, p := pos.query(v)
				sql, err := translateToSQL(q, p)
				if err != nil {
					if strings.HasPrefix(err.Error(), "PANIC: ") {
						report(class, pos.name, "value %q: the pipeline panics: %v", v, err)
					}
					continue // rejected: allowed by the property
				}
				cases++
				perPosition[prefix+pos.name]++
				toks, lerr := lexSQL(sql)
				if lerr != nil {
					report(class, pos.name, "value %q: emitted SQL does not lex (%v): %s", v, lerr, sql)
					continue
				}
				if got := skeleton(toks); got != refSkel {
					report(class, pos.name, "value %q changes the token structure of the statement: %s", v, sql)
					continue
				}
				// the statement the PostgreSQL driver actually sends (translate.FromCypher: the query echoed as a SQL
				// comment, then the statement): outside comments it must be the statement checked above
				if driverSQL, derr := driverStatement(q); derr == nil {
					if dtoks, dlerr := lexSQL(driverSQL); dlerr != nil {
						report(class, pos.name, "value %q: the statement built for the driver does not lex (%v): %q", v, dlerr, driverSQL)
					} else if skeleton(dtoks) != refSkel {
						report(class, pos.name, "value %q changes the token structure of the statement built for the driver (echoed query text escapes its comment?): %q", v, driverSQL)
					}
				}
				if pos.want == "free" {
					continue
				}
				if strings.HasPrefix(pos.want, "like:") {
					// the operand travels as a LIKE pattern: read with LIKE's own rules (backslash makes the next
					// character literal, % and _ are wildcards) one string token must be exactly the literal text v with
					// the wildcard affixes of the operator, and nothing else may be a wildcard
					want := strings.TrimPrefix(pos.want, "like:")
					ok, seen := false, []string{}
					for _, tk := range toks {
						if tk.kind != "string" {
							continue
						}
						if shape, lit, lok := likeDecode(tk.text); lok {
							seen = append(seen, fmt.Sprintf("%q reads as %s with literal text %q", tk.text, shape, lit))
							if shape == want && lit == v {
								ok = true
							}
						} else {
							seen = append(seen, fmt.Sprintf("%q is not a well-formed LIKE pattern (escape character at the end)", tk.text))
						}
					}
					if !ok {
						report(class, pos.name, "value %q is not matched literally by the LIKE pattern PostgreSQL reads (wanted the shape %s around exactly that text): %s; %s", v, want, strings.Join(seen, "; "), sql)
					}
					continue
				}
				found := false
				for _, tk := range toks {
					if (pos.want == "string" && tk.kind == "string" || pos.want == "ident" && tk.kind == "qident") && tk.text == v {
						found = true
					}
				}
				if !found {
					report(class, pos.name, "value %q is not read back by PostgreSQL as the value the query denoted: %s", v, sql)
				}
			}
		}
	}
	sweep("", values)

	// ---- added input classes ----
	x := &xHarness{maxLen: maxLen, report: report, perPosition: perPosition, skeleton: skeleton}
	if seed, err := strconv.ParseInt(os.Getenv("VERIF_SEED"), 10, 64); err == nil {
		x.rng = rand.New(rand.NewSource(seed))
	}
	longValues := xLongValues()
	x.shuffle(longValues)
	phase := func(name string, f func()) {
		t0 := time.Now()
		c0 := cases + x.cases
		f()
		if os.Getenv("VERIF_C04_TIMING") != "" {
			fmt.Fprintf(os.Stderr, "phase %s: %d cases, %v\n", name, cases+x.cases-c0, time.Since(t0))
		}
	}
	// line breaks of every kind PostgreSQL ends a -- comment with (and ones it does not), alone and mixed with quotes
	lineBreaks := []string{"\r", "\n", "\r\n", "a\rb", "a\nb", "\r; drop table node; --", "\n; drop table node; --", "x\r'; select 1; --", "\u2028", "\u0085", "\v", "\f", "\r\r", "'\r'"}
	phase("line breaks", func() { sweep("line-breaks", lineBreaks) })
	phase("long values", func() { sweep("long-values", longValues) })
	phase("long values in traversal text", func() { x.fragmentSweep("long-values", xLongFragmentValues(), false) })
	phase("long lists", func() { x.listSweep("long-lists") })
	phase("whitespace in traversal text", func() { x.fragmentSweep("fragment-whitespace", xWhitespaceValues(maxLen), true) })
	phase("hostile alphabet in traversal text", func() { x.fragmentSweep("fragment-whitespace", values, false) })
	phase("parameter types", func() { x.paramSweep("param-types") })
	cases += x.cases

	res := map[string]any{"name": "sqltext", "bound": fmt.Sprintf("all strings up to length %d over %d hostile characters + %d crafted, %d positions; + long values (%d), long lists (sizes 1,2,16,17,18,40), whitespace values (%d) in traversal fragments, parameter Go types (%d)", maxLen, len(alphabet), len(values)-generated, len(positions), len(longValues), len(xWhitespaceValues(maxLen)), len(xParamValues())), "cases": cases, "per_position": perPosition, "exhaustive": true, "failures": failures, "known_deviation_hits": knownHits}
	out, _ := json.Marshal(res)
	fmt.Println("BOUNDED-RESULT " + string(out))
	if len(failures) > 0 {
		t.Fail()
	}
}

// =====================================================================================================================
// Extension: long values, long lists, whitespace inside the SQL text handed to the server-side traversal functions,
// parameter Go types. The oracle is the one above: the emitted SQL (and every piece of SQL text that travels as a
// string, decoded through its own quoting level first) is re-read by lexSQL; its token skeleton must equal the skeleton
// for a benign input of the same type and shape, and at every token where the benign run shows the benign marker the
// hostile run must show exactly the hostile value (string token / quoted identifier / element of one array literal),
// or the value must travel as a bound parameter unchanged.
// =====================================================================================================================

type xFrag struct {
	name string // how the SQL text travels: "param:<name>" or "literal#<statement token index>"
	text string
	toks []sqlTok
}

type xRun struct {
	sql     string
	params  map[string]any
	toks    []sqlTok // comments removed
	frags   []xFrag
	carrier map[int]bool // statement tokens whose string value is itself SQL text
}

func xStripComments(toks []sqlTok) []sqlTok {
	out := make([]sqlTok, 0, len(toks))
	for _, tk := range toks {
		if tk.kind != "comment" {
			out = append(out, tk)
		}
	}
	return out
}

func xCopyParams(params map[string]any) map[string]any {
	if params == nil {
		return nil
	}
	out := make(map[string]any, len(params))
	for k, v := range params {
		out[k] = v
	}
	return out
}

// xTranslate pushes the query through the real pipeline; a panic is caught and returned as text.
func xTranslate(q string, params map[string]any) (run *xRun, panicked string, rerr error) {
	defer func() {
		if r := recover(); r != nil {
			run, panicked, rerr = nil, fmt.Sprint(r), nil
		}
	}()
	model, err := frontend.ParseCypher(frontend.NewContext(), q)
	if err != nil {
		return nil, "", err
	}
	res, err := translate.Translate(context.Background(), model, newKindMapper(), xCopyParams(params), translate.DefaultGraphID)
	if err != nil {
		return nil, "", err
	}
	sql, err := translate.Translated(res)
	if err != nil {
		return nil, "", err
	}
	return &xRun{sql: sql, params: res.Parameters}, "", nil
}

// analyse lexes the statement and finds every piece of SQL text that travels as a string: string arguments of the
// server-side traversal functions (<...>_harness(...)), given as a string parameter or as a string literal, plus every
// other string-valued output parameter that is not one of the caller's own values. Each is lexed after decoding the
// quoting level it travels in.
func (r *xRun) analyse(supplied map[string]any) error {
	toks, err := lexSQL(r.sql)
	if err != nil {
		return fmt.Errorf("the statement does not lex (%v)", err)
	}
	r.toks = xStripComments(toks)
	r.carrier = map[int]bool{}
	r.frags = nil
	seen := map[string]bool{}
	add := func(name, text string) error {
		ft, err := lexSQL(text)
		if err != nil {
			return fmt.Errorf("the SQL text travelling as %s does not lex (%v): %s", name, err, text)
		}
		r.frags = append(r.frags, xFrag{name, text, xStripComments(ft)})
		return nil
	}
	for i := 0; i+1 < len(r.toks); i++ {
		if r.toks[i].kind != "ident" || !strings.HasSuffix(r.toks[i].text, "_harness") || r.toks[i+1].kind != "op" || r.toks[i+1].text != "(" {
			continue
		}
		depth := 0
	args:
		for j := i + 1; j < len(r.toks); j++ {
			tk := r.toks[j]
			switch {
			case tk.kind == "op" && tk.text == "(":
				depth++
			case tk.kind == "op" && tk.text == ")":
				depth--
				if depth == 0 {
					break args
				}
			case tk.kind == "param" && strings.HasPrefix(tk.text, "@"):
				name := tk.text[1:]
				if sv, ok := r.params[name].(string); ok && !seen[name] {
					seen[name] = true
					if err := add("param:"+name, sv); err != nil {
						return err
					}
				}
			case tk.kind == "string" && tk.text != "":
				r.carrier[j] = true
				if err := add(fmt.Sprintf("literal#%d", j), tk.text); err != nil {
					return err
				}
			}
		}
	}
	var keys []string
	for k := range r.params {
		keys = append(keys, k)
	}
	sort.Strings(keys)
	for _, k := range keys {
		sv, ok := r.params[k].(string)
		if !ok || seen[k] {
			continue
		}
		own := false
		for _, u := range supplied {
			if us, ok := u.(string); ok && us == sv {
				own = true
			}
		}
		if !own {
			if err := add("param:"+k, sv); err != nil {
				return err
			}
		}
	}
	return nil
}

func (r *xRun) describe() string {
	var b strings.Builder
	b.WriteString(r.sql)
	for _, f := range r.frags {
		if strings.HasPrefix(f.name, "param:") {
			b.WriteString("  [" + f.name + "] " + f.text)
		}
	}
	s := b.String()
	if len(s) > 2500 {
		s = s[:2500] + "...(cut)"
	}
	return s
}

// xDecodeArrayLiteral reads a one-dimensional array literal with the rules of PostgreSQL's array_in: elements are
// separated by commas inside braces; a double-quoted element may contain anything, with backslash making the next
// character literal; in an unquoted element a backslash does the same, leading and trailing whitespace is dropped, and
// an unquoted NULL (any case) is the null value (reported as nil). ok is false for anything that is not such a literal.
func xDecodeArrayLiteral(s string) (elems []*string, ok bool) {
	isSpace := func(c byte) bool { return c == ' ' || c == '\t' || c == '\n' || c == '\r' || c == '\v' || c == '\f' }
	i := 0
	skip := func() {
		for i < len(s) && isSpace(s[i]) {
			i++
		}
	}
	skip()
	if i >= len(s) || s[i] != '{' {
		return nil, false
	}
	i++
	skip()
	if i < len(s) && s[i] == '}' {
		i++
		skip()
		return []*string{}, i == len(s)
	}
	for {
		skip()
		if i >= len(s) {
			return nil, false
		}
		switch {
		case s[i] == '"':
			i++
			var b strings.Builder
			closed := false
			for i < len(s) {
				if s[i] == '\\' {
					if i+1 >= len(s) {
						return nil, false
					}
					b.WriteByte(s[i+1])
					i += 2
					continue
				}
				if s[i] == '"' {
					i++
					closed = true
					break
				}
				b.WriteByte(s[i])
				i++
			}
			if !closed {
				return nil, false
			}
			v := b.String()
			elems = append(elems, &v)
		case s[i] == '{' || s[i] == ',' || s[i] == '}':
			return nil, false // nested array or empty unquoted element
		default:
			var b strings.Builder
			keep := 0 // length of b that must survive trimming
			escaped := false
			for i < len(s) && s[i] != ',' && s[i] != '}' {
				if s[i] == '"' || s[i] == '{' {
					return nil, false
				}
				if s[i] == '\\' {
					if i+1 >= len(s) {
						return nil, false
					}
					b.WriteByte(s[i+1])
					keep = b.Len()
					escaped = true
					i += 2
					continue
				}
				b.WriteByte(s[i])
				if !isSpace(s[i]) {
					keep = b.Len()
				}
				i++
			}
			v := b.String()[:keep]
			if v == "" {
				return nil, false
			}
			if !escaped && strings.EqualFold(v, "null") {
				elems = append(elems, nil)
			} else {
				elems = append(elems, &v)
			}
		}
		skip()
		if i >= len(s) {
			return nil, false
		}
		if s[i] == ',' {
			i++
			continue
		}
		if s[i] == '}' {
			i++
			break
		}
		return nil, false
	}
	skip()
	return elems, i == len(s)
}

type xExpect struct {
	str          func(refText string) (string, bool)            // benign marker text -> the text the hostile run must show there
	num          func(refText string) (func(string) bool, bool) // benign marker number -> test for the hostile run's number token
	strictOthers bool                                           // every other string token must be unchanged
}

func xCompareToks(refT, gotT []sqlTok, carrier map[int]bool, where string, e xExpect) (n int, problem string) {
	if len(refT) != len(gotT) {
		return 0, fmt.Sprintf("%s: %d tokens instead of %d", where, len(gotT), len(refT))
	}
	for i := range refT {
		rt, gt := refT[i], gotT[i]
		switch rt.kind {
		case "string":
			if carrier[i] {
				continue
			}
			if want, ok := xExpectStr(e, rt.text); ok {
				n++
				if gt.kind != "string" || gt.text != want {
					return n, fmt.Sprintf("%s: token %d reads back as %s %q, the query denoted %q", where, i, gt.kind, gt.text, want)
				}
				continue
			}
			if refElems, ok := xDecodeArrayLiteral(rt.text); ok && len(refElems) > 0 && strings.HasPrefix(strings.TrimSpace(rt.text), "{") {
				var wantList []string
				markers := true
				for _, re := range refElems {
					if re == nil {
						markers = false
						break
					}
					w, ok := xExpectStr(e, *re)
					if !ok {
						markers = false
						break
					}
					wantList = append(wantList, w)
				}
				if markers {
					n += len(wantList)
					gotElems, ok := xDecodeArrayLiteral(gt.text)
					if gt.kind != "string" || !ok || len(gotElems) != len(wantList) {
						return n, fmt.Sprintf("%s: token %d (%q) is not an array literal with the %d elements the query denoted", where, i, gt.text, len(wantList))
					}
					for k, ge := range gotElems {
						if ge == nil || *ge != wantList[k] {
							got := "NULL"
							if ge != nil {
								got = strconv.Quote(*ge)
							}
							return n, fmt.Sprintf("%s: token %d: array element %d reads back as %s, the query denoted %q (array literal %q)", where, i, k, got, wantList[k], gt.text)
						}
					}
					continue
				}
			}
			if e.strictOthers && (gt.kind != "string" || gt.text != rt.text) {
				return n, fmt.Sprintf("%s: token %d, a literal that does not carry the value, changed from %q to %q", where, i, rt.text, gt.text)
			}
		case "ident", "qident":
			if want, ok := xExpectStr(e, rt.text); ok {
				n++
				if (gt.kind != "qident" && gt.kind != "ident") || gt.text != want {
					return n, fmt.Sprintf("%s: token %d reads back as %s %q, the query denoted the name %q", where, i, gt.kind, gt.text, want)
				}
			}
		case "number":
			if e.num != nil {
				if test, ok := e.num(rt.text); ok {
					n++
					if gt.kind != "number" || !test(gt.text) {
						return n, fmt.Sprintf("%s: token %d reads back as %s %q, not the number the parameter held", where, i, gt.kind, gt.text)
					}
				} else if gt.kind != "number" || gt.text != rt.text {
					return n, fmt.Sprintf("%s: token %d, a number that is not the value, changed from %q to %q", where, i, rt.text, gt.text)
				}
			}
		}
	}
	return n, ""
}

func xExpectStr(e xExpect, refText string) (string, bool) {
	if e.str == nil {
		return "", false
	}
	return e.str(refText)
}

// xCompareSlots: number of value positions in the statement and in travelling SQL text, and the first discrepancy.
func xCompareSlots(ref, got *xRun, e xExpect) (stmtN, fragN int, problem string) {
	stmtN, problem = xCompareToks(ref.toks, got.toks, ref.carrier, "statement", e)
	if problem != "" {
		return
	}
	if len(ref.frags) != len(got.frags) {
		return stmtN, 0, fmt.Sprintf("%d pieces of SQL text instead of %d", len(got.frags), len(ref.frags))
	}
	for i := range ref.frags {
		n, p := xCompareToks(ref.frags[i].toks, got.frags[i].toks, nil, "SQL text travelling as "+got.frags[i].name, e)
		fragN += n
		if p != "" {
			return stmtN, fragN, p
		}
	}
	return
}

// xCanon: a comparison form for parameter values (the bound value must be the supplied value).
func xCanon(v any) any {
	if v == nil {
		return nil
	}
	rv := reflect.ValueOf(v)
	switch rv.Kind() {
	case reflect.String:
		return "s:" + rv.String()
	case reflect.Bool:
		return rv.Bool()
	case reflect.Int, reflect.Int8, reflect.Int16, reflect.Int32, reflect.Int64:
		if d, ok := v.(time.Duration); ok {
			return "d:" + d.String()
		}
		return "n:" + strconv.FormatInt(rv.Int(), 10)
	case reflect.Uint, reflect.Uint8, reflect.Uint16, reflect.Uint32, reflect.Uint64:
		return "n:" + strconv.FormatUint(rv.Uint(), 10)
	case reflect.Float32, reflect.Float64:
		return "f:" + strconv.FormatFloat(rv.Float(), 'g', -1, 64)
	case reflect.Slice, reflect.Array:
		if rv.Kind() == reflect.Slice && rv.IsNil() {
			return []any{}
		}
		out := make([]any, rv.Len())
		for i := range out {
			out[i] = xCanon(rv.Index(i).Interface())
		}
		return out
	case reflect.Map:
		raw, err := json.Marshal(v)
		if err != nil {
			return fmt.Sprintf("unmarshalable:%#v", v)
		}
		var back any
		_ = json.Unmarshal(raw, &back)
		return map[string]any{"json": back}
	case reflect.Struct:
		if f := rv.FieldByName("Bytes"); f.IsValid() && f.Kind() == reflect.Slice && f.Type().Elem().Kind() == reflect.Uint8 {
			var back any
			if err := json.Unmarshal(f.Bytes(), &back); err == nil {
				return map[string]any{"json": back}
			}
		}
		return fmt.Sprintf("%T:%v", v, v)
	default:
		return fmt.Sprintf("%T:%v", v, v)
	}
}

func xSameValue(supplied, out any) bool { return reflect.DeepEqual(xCanon(supplied), xCanon(out)) }

type xHarness struct {
	maxLen      int
	report      func(class, pos, format string, args ...any)
	perPosition map[string]int
	skeleton    func([]sqlTok) string
	rng         *rand.Rand
	cases       int
}

func (x *xHarness) shuffle(v []string) {
	if x.rng != nil {
		x.rng.Shuffle(len(v), func(i, j int) { v[i], v[j] = v[j], v[i] })
	}
}

// fullSkeleton: the token skeleton of the statement and of every piece of travelling SQL text. With numeric set (the
// value under test is a number) number tokens are written as N; xCompareToks then compares every number token that is
// not the value itself text for text.
func (x *xHarness) fullSkeleton(r *xRun, numeric bool) string {
	one := func(toks []sqlTok) string {
		if !numeric {
			return x.skeleton(toks)
		}
		c := append([]sqlTok(nil), toks...)
		for i := range c {
			if c[i].kind == "number" {
				c[i].text = "N"
			}
		}
		return x.skeleton(c)
	}
	var b strings.Builder
	b.WriteString(one(r.toks))
	for _, f := range r.frags {
		b.WriteString("\n[" + f.name + "] " + one(f.toks))
	}
	return b.String()
}

type xRef struct {
	run    *xRun
	skel   string
	in     map[string]any
	stmtN  int
	fragN  int
	reason string // non-empty: the benign form never reaches SQL
}

// reference: the benign run of a shape.
func (x *xHarness) reference(q string, params map[string]any, e xExpect) *xRef {
	run, pan, err := xTranslate(q, params)
	if pan != "" {
		return &xRef{reason: "benign form panics: " + pan}
	}
	if err != nil {
		return &xRef{reason: err.Error()}
	}
	if err := run.analyse(params); err != nil {
		return &xRef{reason: "benign form: " + err.Error()}
	}
	ref := &xRef{run: run, in: params}
	ref.skel = strings.ReplaceAll(x.fullSkeleton(run, e.num != nil), "ident:benign ", "I ")
	ref.stmtN, ref.fragN, _ = xCompareSlots(run, run, xExpect{str: func(s string) (string, bool) {
		if e.str == nil {
			return "", false
		}
		if _, ok := e.str(s); ok {
			return s, true
		}
		return "", false
	}, num: func(s string) (func(string) bool, bool) {
		if e.num == nil {
			return nil, false
		}
		if _, ok := e.num(s); ok {
			return func(g string) bool { return g == s }, true
		}
		return nil, false
	}})
	return ref
}

// verify: one hostile run against its benign reference. label is the printable hostile input.
func (x *xHarness) verify(class, pos, countKey, label string, ref *xRef, q string, params map[string]any, e xExpect) {
	got, pan, err := xTranslate(q, params)
	if pan != "" {
		x.report(class, pos, "%s: the pipeline panics (%s) for query %q", label, pan, q)
		return
	}
	if err != nil {
		return // rejected: allowed by the property
	}
	x.cases++
	x.perPosition[class+"/"+countKey]++
	if err := got.analyse(params); err != nil {
		x.report(class, pos, "%s: %v; query %q; emitted: %s", label, err, q, got.describe())
		return
	}
	if ref == nil || ref.run == nil {
		return // no benign form to compare with: lexing and no-panic are all that can be said
	}
	if x.fullSkeleton(got, e.num != nil) != ref.skel {
		x.report(class, pos, "%s changes the token structure of what PostgreSQL executes; query %q; emitted: %s", label, q, got.describe())
		return
	}
	if _, _, problem := xCompareSlots(ref.run, got, e); problem != "" {
		x.report(class, pos, "%s is not read back by PostgreSQL as the value the query denoted (%s); query %q; emitted: %s", label, problem, q, got.describe())
		return
	}
	// a value that travels as a bound parameter must be the supplied value
	for name, benign := range ref.in {
		hostile, has := params[name]
		if !has {
			continue
		}
		for k, rv := range ref.run.params {
			if !xSameValue(benign, rv) {
				continue
			}
			if gv, ok := got.params[k]; !ok || !xSameValue(hostile, gv) {
				x.report(class, pos, "%s: the bound parameter %s holds %#v instead of the supplied value %#v; query %q", label, k, gv, hostile, q)
				return
			}
		}
	}
}

// ---- class 1: long values ---------------------------------------------------------------------------------------

func xLongValues() []string {
	specials := []byte{'"', '\'', '`', '\\'}
	var out []string
	for _, rng := range [][2]int{{60, 70}, {120, 130}} {
		for l := rng[0]; l <= rng[1]; l++ {
			for _, c := range specials {
				for p := 58; p <= 68 && p < l; p++ {
					b := []byte(strings.Repeat("a", l))
					b[p] = c
					out = append(out, string(b))
				}
				b := []byte(strings.Repeat("a", l))
				for p := 58; p <= 68 && p < l; p++ {
					b[p] = c
				}
				out = append(out, string(b))
			}
		}
	}
	// two-byte characters so that byte 63 falls inside a character, then the special character
	for _, c := range specials {
		for _, n := range []int{29, 30, 31, 32} {
			out = append(out, strings.Repeat("é", n)+string(c)+"aaaa"+string(c))
		}
	}
	out = append(out, xVeryLongValues()...)
	return out
}

func xLongFragmentValues() []string {
	var out []string
	for _, c := range []byte{'"', '\'', '`', '\\'} {
		for p := 58; p <= 68; p++ {
			b := []byte(strings.Repeat("a", 70))
			b[p] = c
			out = append(out, string(b))
		}
		for _, l := range []int{64, 128} {
			b := []byte(strings.Repeat("a", l))
			for p := 58; p <= 68 && p < l; p++ {
				b[p] = c
			}
			out = append(out, string(b))
		}
	}
	out = append(out, xVeryLongValues()...)
	return out
}

// xVeryLongValues: values of 2100 and 4200 bytes (beyond any buffer or size threshold of a few KiB) that end in a quote
// character, a dollar quote or a backslash followed by more text.
func xVeryLongValues() []string {
	var out []string
	for _, l := range []int{2100, 4200} {
		for _, mark := range []string{"$$", "'", "$q$", "$$; drop table node; --", `\`, `"`} {
			out = append(out, strings.Repeat("a", l)+mark+"b"+mark)
		}
	}
	return out
}

// ---- class 3: values inlined into the SQL text of the traversal functions ------------------------------------------

func xWhitespaceValues(maxLen int) []string {
	alpha := []string{" ", "\t", "\n", "\r", "\u00a0", "a", "'"}
	var out []string
	var gen func(cur string, n int)
	gen = func(cur string, n int) {
		if cur != "" {
			out = append(out, cur)
		}
		if n == 0 {
			return
		}
		for _, a := range alpha {
			gen(cur+a, n-1)
		}
	}
	gen("", maxLen)
	out = append(out, "a  b", "a   b", "a          b", " a", "a ", "  a  ", "a\tb", "a\t\tb", "a\nb", "a\r\nb", "a\rb", "a\u00a0b", "\u00a0a\u00a0",
		" \t\n\r ", "a \n b", "a ' b", "' '", "a  ''  b", "x';\n--", "a\n-- b", "a\u2003b", "a\u2028b", "a\fb", "a\vb", "\u3000", "a \\ b", "a\\\n", "\ta\n")
	seen := map[string]bool{}
	uniq := out[:0]
	for _, v := range out {
		if !seen[v] {
			seen[v] = true
			uniq = append(uniq, v)
		}
	}
	return uniq
}

// Cypher string literal that writes control characters with Cypher's escape sequences instead of the raw character.
func xCyStringEscaped(v string) string {
	r := strings.NewReplacer(`\`, `\\`, `'`, `\'`, "\n", `\n`, "\t", `\t`, "\r", `\r`, "\f", `\f`, "\b", `\b`)
	return "'" + r.Replace(v) + "'"
}

type xFragShape struct {
	group string                  // aggregated position name
	query func(val string) string // val: the Cypher text of the value (a literal or $v)
}

func xFragmentShapes(full bool) []xFragShape {
	var shapes []xFragShape
	type ends struct {
		name         string
		onS, onE     bool
		sKind, eKind string
	}
	add := func(fn, rel string, ep ends, pred string) {
		shapes = append(shapes, xFragShape{
			group: "traversal text, " + ep.name + ", " + pred,
			query: func(val string) string {
				sMap, eMap := "", ""
				var where []string
				for _, side := range []struct {
					on   bool
					name string
					m    *string
				}{{ep.onS, "s", &sMap}, {ep.onE, "e", &eMap}} {
					if !side.on {
						continue
					}
					switch pred {
					case "where =":
						where = append(where, side.name+".name = "+val)
					case "property map":
						*side.m = " {name: " + val + "}"
					case "where in [..]":
						where = append(where, side.name+".name in ["+val+", 'other']")
					}
				}
				q := "match p = " + fn + "((s" + ep.sKind + sMap + ")" + rel + "(e" + ep.eKind + eMap + "))"
				if len(where) > 0 {
					q += " where " + strings.Join(where, " and ")
				}
				return q + " return p"
			},
		})
	}
	plain := []ends{{"start node", true, false, "", ""}, {"end node", false, true, "", ""}, {"both nodes", true, true, "", ""}}
	kinded := []ends{{"start node, end node has a kind", true, false, "", ":NodeKind1"}, {"end node, start node has a kind", false, true, ":NodeKind1", ""}}
	preds := []string{"where =", "property map", "where in [..]"}
	if !full {
		preds = preds[:2]
	}
	for _, fn := range []string{"shortestPath", "allShortestPaths"} {
		for _, rel := range []string{"-[*..]->", "<-[*..]-"} {
			for _, pred := range preds {
				for _, ep := range plain {
					add(fn, rel, ep, pred)
				}
				if full {
					for _, ep := range kinded {
						add(fn, rel, ep, pred)
					}
				}
			}
		}
		if full {
			for _, rel := range []string{"-[:EdgeKind1*1..]->", "<-[:EdgeKind1|EdgeKind2*1..]-"} {
				for _, ep := range plain {
					add(fn, rel, ep, "where =")
				}
			}
		}
	}
	return shapes
}

func (x *xHarness) fragmentSweep(class string, values []string, full bool) {
	values = append([]string(nil), values...)
	x.shuffle(values)
	benign := xExpect{str: func(s string) (string, bool) { return "benign", s == "benign" }, strictOthers: true}
	for _, shape := range xFragmentShapes(full) {
		forms := []string{"string literal", "$parameter"}
		if full {
			forms = append(forms, "string literal with escape sequences")
		}
		for _, form := range forms {
			build := func(v string) (string, map[string]any) {
				switch form {
				case "string literal":
					return shape.query(cyString(v)), nil
				case "string literal with escape sequences":
					return shape.query(xCyStringEscaped(v)), nil
				default:
					return shape.query("$v"), map[string]any{"v": v}
				}
			}
			pos := shape.group + ", " + form
			refQ, refP := build("benign")
			ref := x.reference(refQ, refP, benign)
			if ref.run == nil || ref.fragN == 0 {
				x.perPosition[class+"/traversal shapes whose benign form is rejected or carries no value in SQL text"]++
				continue
			}
			for _, v := range values {
				if form == "string literal with escape sequences" && xCyStringEscaped(v) == cyString(v) {
					continue
				}
				q, p := build(v)
				x.verify(class, pos, "traversal text, "+form, fmt.Sprintf("value %q", v), ref, q, p, xExpect{str: func(s string) (string, bool) { return v, s == "benign" }, strictOthers: true})
			}
		}
	}
}

// ---- class 2: long lists ------------------------------------------------------------------------------------------

func xListElements() []string {
	return []string{`a\`, `b"c`, `d,e`, `{f}`, `NULL`, ``, `'`, ` g `, `}`, `{`, `null`, `\"`, `h\\`, `"`, `{"a",b}`, `i\,`, "j\tk"}
}

func (x *xHarness) listSweep(class string) {
	h := xListElements()
	var lists [][]string
	for _, n := range []int{1, 2, 16, 17, 18, 40} {
		switch {
		case n == 1:
			for _, e := range h {
				lists = append(lists, []string{e})
			}
		case n == 2:
			m := 4 * x.maxLen // all ordered pairs over the first 4*bound elements
			if m > len(h) {
				m = len(h)
			}
			for _, a := range h[:m] {
				for _, b := range h[:m] {
					lists = append(lists, []string{a, b})
				}
			}
		default:
			for k := range h {
				rot := make([]string, n)
				same := make([]string, n)
				for i := range rot {
					rot[i] = h[(i+k)%len(h)]
					same[i] = h[k]
				}
				lists = append(lists, rot, same)
			}
		}
	}
	if x.rng != nil {
		x.rng.Shuffle(len(lists), func(i, j int) { lists[i], lists[j] = lists[j], lists[i] })
	}
	literal := func(elems []string) string {
		parts := make([]string, len(elems))
		for i, e := range elems {
			parts[i] = cyString(e)
		}
		return "[" + strings.Join(parts, ", ") + "]"
	}
	type listShape struct {
		name  string
		query string // %s = the list expression
	}
	shapes := []listShape{
		{"IN list", "match (n) where n.name in %s return n"},
		{"= list", "match (n) where n.tags = %s return n"},
		{"returned list", "match (n) return %s as l"},
		{"SET list", "match (n) set n.tags = %s return n"},
		{"property map list", "match (n {tags: %s}) return n"},
		{"UNWIND list", "unwind %s as x return x"},
		{"CREATE list", "create (n:NodeKind1 {tags: %s}) return n"},
		{"any() over list", "match (n) where any(x in %s where n.name = x) return n"},
		{"traversal text, IN list at the end node", "match p = shortestPath((s)-[*..]->(e)) where e.name in %s return p"},
		{"traversal text, IN list at the start node", "match p = allShortestPaths((s)<-[:EdgeKind1*1..]-(e:NodeKind1)) where s.name in %s return p"},
		{"traversal text, IN list at both nodes", "match p = shortestPath((s)-[*..]->(e)) where s.name in %[1]s and e.name in %[1]s return p"},
		{"traversal text, = list at both nodes", "match p = allShortestPaths((s)-[*..]->(e)) where s.tags = %[1]s and e.tags = %[1]s return p"},
	}
	benignList := func(n int) []string {
		out := make([]string, n)
		for i := range out {
			out[i] = "benign" + strconv.Itoa(i)
		}
		return out
	}
	expectFor := func(elems []string) xExpect {
		return xExpect{strictOthers: true, str: func(s string) (string, bool) {
			if !strings.HasPrefix(s, "benign") {
				return "", false
			}
			i, err := strconv.Atoi(s[len("benign"):])
			if err != nil || i < 0 || i >= len(elems) || s != "benign"+strconv.Itoa(i) {
				return "", false
			}
			return elems[i], true
		}}
	}
	forms := []string{"literal", "[]string parameter", "[]any parameter"}
	refs := map[string]*xRef{}
	for _, shape := range shapes {
		for _, form := range forms {
			build := func(elems []string) (string, map[string]any) {
				switch form {
				case "literal":
					return fmt.Sprintf(shape.query, literal(elems)), nil
				case "[]string parameter":
					return fmt.Sprintf(shape.query, "$p"), map[string]any{"p": append([]string{}, elems...)}
				default:
					l := make([]any, len(elems))
					for i, e := range elems {
						l[i] = e
					}
					return fmt.Sprintf(shape.query, "$p"), map[string]any{"p": l}
				}
			}
			pos := shape.name + ", " + form
			for _, elems := range lists {
				key := pos + "#" + strconv.Itoa(len(elems))
				ref, ok := refs[key]
				if !ok {
					q, p := build(benignList(len(elems)))
					ref = x.reference(q, p, expectFor(benignList(len(elems))))
					refs[key] = ref
				}
				q, p := build(elems)
				x.verify(class, pos, shape.name, fmt.Sprintf("list of %d elements %q", len(elems), elems), ref, q, p, expectFor(elems))
			}
		}
	}
}

// ---- class 4: parameter Go types ----------------------------------------------------------------------------------

type xParam struct {
	name   string
	value  any
	benign any    // a harmless value of the same Go type (and sign, and length)
	kind   string // string | strings | number | self (the value is its own reference: no-panic, lexing and binding only)
	class  string // own deviation class, when the value belongs to a narrower class than param-types
}

func xParamValues() []xParam {
	var out []xParam
	for _, s := range []string{"x'y", `a\`, `"`, "a  b", " a\t", "x'; drop table node; --", `\'; select 1; --`, "$q$x$q$", "", "NULL", "é'ü"} {
		out = append(out, xParam{fmt.Sprintf("string %q", s), s, "benign", "string", ""})
	}
	hostile := []string{`a\`, `b"c`, "x'y", `d,e`, `{f}`, "NULL", "", " g "}
	for _, n := range []int{1, 3, 8} {
		ss := append([]string{}, hostile[:n]...)
		bs := make([]string, n)
		as := make([]any, n)
		ab := make([]any, n)
		for i := range ss {
			bs[i] = "benign" + strconv.Itoa(i)
			as[i] = ss[i]
			ab[i] = bs[i]
		}
		out = append(out, xParam{fmt.Sprintf("[]string %q", ss), ss, bs, "strings", ""}, xParam{fmt.Sprintf("[]any %q", ss), as, ab, "strings", ""})
	}
	self := func(name string, v any) { out = append(out, xParam{name, v, v, "self", ""}) }
	self("empty []string", []string{})
	self("nil []string", []string(nil))
	self("empty []any", []any{})
	self("nil []any", []any(nil))
	self("empty []int", []int{})
	self("nested []any{[]any{\"x'y\"}}", []any{[]any{"x'y"}})
	self("nested []any{[]string{\"x'y\"}}", []any{[]string{"x'y"}})
	self("nested [][]string", [][]string{{"x'y", `a\`}, {`"`}})
	self("nested []any{[]any{}, []any{}}", []any{[]any{}, []any{}})
	self("mixed []any{\"a'\", 1}", []any{"a'", 1})
	self("[]any{nil}", []any{nil})
	self("[]any{1, 2}", []any{1, 2})
	self("[]any{1.5}", []any{1.5})
	self("[]any{true}", []any{true})
	self("[]any{map}", []any{map[string]any{"k'": "v'"}})
	self("[]int", []int{1, -2, 3})
	self("[]int64", []int64{1, -2})
	self("[]int32", []int32{1, -2})
	self("[]int16", []int16{1, -2})
	self("[]int8", []int8{1, -2})
	self("[]uint8", []uint8("x'y"))
	self("[]uint64", []uint64{1, math.MaxUint64})
	self("[]float64", []float64{1.5, -2.25, math.NaN(), math.Inf(1)})
	self("[]float32", []float32{1.5})
	self("[]bool", []bool{true, false})
	self("map with hostile key and value", map[string]any{"k'\"\\": "v'\"; --"})
	self("empty map", map[string]any{})
	self("nil map", map[string]any(nil))
	self("map with nested list", map[string]any{"k": []any{"x'y", 1, nil, map[string]any{"a": `b\`}}})
	self("map[string]string", map[string]string{"k'": "v'"})
	self("map[int]string", map[int]string{1: "v'"})
	for _, v := range []any{int(5), int(-5), int(0), int8(-128), int16(-32768), int32(math.MinInt32), int64(math.MinInt64), int64(math.MaxInt64),
		uint(5), uint8(255), uint16(65535), uint32(math.MaxUint32), uint64(math.MaxUint64)} {
		rv := reflect.ValueOf(v)
		b := reflect.New(rv.Type()).Elem()
		if rv.CanInt() {
			if rv.Int() < 0 {
				b.SetInt(-77)
			} else {
				b.SetInt(77)
			}
		} else {
			b.SetUint(77)
		}
		out = append(out, xParam{fmt.Sprintf("%T %v", v, v), v, b.Interface(), "number", ""})
	}
	for _, v := range []float64{1.5, -1.5, 0, 5, 1e300, -1e300, 1e-300, 123456789.125, math.MaxFloat64, math.SmallestNonzeroFloat64} {
		b := 77.5
		if v < 0 {
			b = -77.5
		}
		out = append(out, xParam{fmt.Sprintf("float64 %v", v), v, b, "number", ""})
	}
	out = append(out, xParam{"float32 1.5", float32(1.5), float32(77.5), "number", ""}, xParam{"float32 -0.1", float32(-0.1), float32(-77.5), "number", ""})
	// non-finite floats have no numeric spelling: the correct rendering is the quoted word cast to a float type
	// ('NaN'::float8), i.e. a string token where a finite value gives a number token, so they are their own reference
	// (no panic, the text lexes, nothing else in the statement changes); before 4a7444a they were written as bare words
	out = append(out, xParam{"float64 NaN", math.NaN(), math.NaN(), "self", "param-float-nonfinite"}, xParam{"float64 +Inf", math.Inf(1), math.Inf(1), "self", "param-float-nonfinite"},
		xParam{"float64 -Inf", math.Inf(-1), math.Inf(-1), "self", "param-float-nonfinite"}, xParam{"float32 NaN", float32(math.NaN()), float32(math.NaN()), "self", "param-float-nonfinite"},
		xParam{"float64 negative zero", math.Copysign(0, -1), -77.5, "number", ""})
	self("bool true", true)
	self("bool false", false)
	self("nil", nil)
	self("time.Time", time.Date(2020, 1, 2, 3, 4, 5, 6, time.UTC))
	self("time.Duration", 90*time.Second)
	self("struct{}", struct{}{})
	str := "x'y"
	self("*string", &str)
	self("json.Number", json.Number("1e5"))
	self("error value", fmt.Errorf("x'y"))
	self("func", func() {})
	self("chan", make(chan int))
	return out
}

func (x *xHarness) paramSweep(class string) {
	shapes := []struct{ name, query string }{
		{"comparison", "match (n) where n.name = $p return n"},
		{"comparison, parameter on the left", "match (n) where $p = n.name return n"},
		{"inequality", "match (n) where n.name <> $p return n"},
		{"ordering comparison", "match (n) where n.name > $p return n"},
		{"IN parameter", "match (n) where n.name in $p return n"},
		{"parameter IN property", "match (n) where $p in n.tags return n"},
		{"property map", "match (n {name: $p}) return n"},
		{"relationship property map", "match (a)-[r:EdgeKind1 {name: $p}]->(b) return r"},
		{"comparison and SET", "match (n) where n.name = $p set n.other = $p return n"},
		{"CREATE property map", "create (n:NodeKind1 {name: $p}) return n"},
		{"returned parameter", "match (n) return $p as v"},
		{"starts with", "match (n) where n.name starts with $p return n"},
		{"traversal text, comparison at the start node", "match p = shortestPath((s)-[*..]->(e)) where s.name = $p return p"},
		{"traversal text, comparison at the end node", "match p = allShortestPaths((s:NodeKind1)<-[:EdgeKind1*1..]-(e)) where e.name = $p return p"},
		{"traversal text, comparison at both nodes", "match p = shortestPath((s)-[*..]->(e)) where s.name = $p and e.name = $p return p"},
		{"traversal text, IN parameter at the end node", "match p = shortestPath((s)-[*..]->(e)) where e.name in $p return p"},
		{"traversal text, IN parameter at both nodes", "match p = allShortestPaths((s)-[*..]->(e)) where s.name in $p and e.name in $p return p"},
		{"traversal text, parameter IN property", "match p = shortestPath((s)-[*..]->(e)) where $p in e.tags return p"},
		{"traversal text, property map at the start node", "match p = shortestPath((s {name: $p})-[*..]->(e)) return p"},
		{"traversal text, property map at both nodes", "match p = allShortestPaths((s {name: $p})<-[*..]-(e {name: $p})) return p"},
		{"traversal text, starts with", "match p = shortestPath((s)-[*..]->(e)) where e.name starts with $p return p"},
	}
	values := xParamValues()
	refs := map[string]*xRef{}
	if x.rng != nil {
		x.rng.Shuffle(len(values), func(i, j int) { values[i], values[j] = values[j], values[i] })
	}
	for _, shape := range shapes {
		for _, pv := range values {
			pv := pv
			var e xExpect
			switch pv.kind {
			case "string":
				e = xExpect{strictOthers: true, str: func(s string) (string, bool) { return pv.value.(string), s == "benign" }}
				if strings.Contains(shape.name, "starts with") {
					e.strictOthers = false // the value may become part of a pattern literal; where it is passed on as it is, it must be exact
				}
			case "strings":
				var elems []string
				rv := reflect.ValueOf(pv.value)
				for i := 0; i < rv.Len(); i++ {
					elems = append(elems, rv.Index(i).Interface().(string))
				}
				e = xExpect{strictOthers: true, str: func(s string) (string, bool) {
					for i := range elems {
						if s == "benign"+strconv.Itoa(i) {
							return elems[i], true
						}
					}
					return "", false
				}}
			case "number":
				value := pv.value
				e = xExpect{strictOthers: true, num: func(s string) (func(string) bool, bool) {
					if s != "77" && s != "77.5" {
						return nil, false
					}
					return func(got string) bool {
						rv := reflect.ValueOf(value)
						switch {
						case rv.CanInt():
							want := strconv.FormatInt(rv.Int(), 10)
							return got == strings.TrimPrefix(want, "-")
						case rv.CanUint():
							return got == strconv.FormatUint(rv.Uint(), 10)
						default:
							f, err := strconv.ParseFloat(got, 64)
							return err == nil && f == math.Abs(rv.Float())
						}
					}, true
				}}
			default:
				e = xExpect{strictOthers: true}
			}
			refKey := fmt.Sprintf("%s|%s|%T|%v", shape.name, pv.kind, pv.benign, pv.benign)
			ref, cached := refs[refKey]
			if !cached || pv.kind == "self" {
				ref = x.reference(shape.query, map[string]any{"p": pv.benign}, e)
				refs[refKey] = ref
			}
			cls := class
			if pv.class != "" {
				cls = pv.class
			}
			x.verify(cls, shape.name, shape.name, "parameter "+pv.name, ref, shape.query, map[string]any{"p": pv.value}, e)
		}
	}
}
