package test

// Bounded stand-in for C04 (labelled bounded, never counted as proved): hostile text in every
// user-controlled position of an accepted query, pushed through the REAL pipeline (ParseCypher -> Translate
// -> format) and re-read with an independent lexer written from PostgreSQL's lexical rules
// (standard_conforming_strings = on). For every value the token sequence outside the value's own token must
// equal the sequence obtained for a benign value, and the value the lexer reads back must equal the value
// the Cypher text denoted. Values: ALL strings up to length VERIF_BOUND over the alphabet
// { ' " \ ; - a space $ } plus a few crafted longer ones.
//
// Extension (same oracle, four more input classes; a class named in VERIF_KNOWN ("|"-separated) is counted under
// known_deviation_hits instead of failures):
//   long-values          values of length 60..70 and 120..130 with a quote character or a backslash at every position 58..68
//   long-lists           list literals and list-valued parameters with 1, 2, 16, 17, 18 and 40 hostile string elements
//   fragment-whitespace  values with whitespace in every position that is inlined into the SQL text DAWGS hands to its
//                        server-side traversal functions (nested quoting levels are decoded)
//   param-types          parameters of every Go type in comparison, IN and property-map positions

import (
	"context"
	"encoding/json"
	"fmt"
	"math"
	"math/rand"
	"os"
	"reflect"
	"sort"
	"strconv"
	"strings"
	"testing"
	"time"

	"github.com/specterops/dawgs/cypher/frontend"
	"github.com/specterops/dawgs/cypher/models/pgsql/translate"
)

type sqlTok struct {
	kind string // ident qident string number op param comment
	text string // identifier text / decoded string value / operator
}

// lexSQL is an independent re-implementation of the PostgreSQL scanner for the token classes DAWGS emits.
func lexSQL(s string) ([]sqlTok, error) {
	var out []sqlTok
	i := 0
	isIdentStart := func(c byte) bool { return c == '_' || c >= 'a' && c <= 'z' || c >= 'A' && c <= 'Z' || c >= 0x80 }
	isIdentPart := func(c byte) bool { return isIdentStart(c) || c >= '0' && c <= '9' || c == '$' }
	for i < len(s) {
		c := s[i]
		switch {
		case c == ' ' || c == '\t' || c == '\n' || c == '\r' || c == '\f':
			i++
		case c == '-' && i+1 < len(s) && s[i+1] == '-':
			for i < len(s) && s[i] != '\n' {
				i++
			}
			out = append(out, sqlTok{"comment", ""})
		case c == '/' && i+1 < len(s) && s[i+1] == '*':
			depth := 1
			i += 2
			for i < len(s) && depth > 0 {
				if strings.HasPrefix(s[i:], "/*") {
					depth++
					i += 2
				} else if strings.HasPrefix(s[i:], "*/") {
					depth--
					i += 2
				} else {
					i++
				}
			}
			if depth > 0 {
				return out, fmt.Errorf("unterminated comment")
			}
			out = append(out, sqlTok{"comment", ""})
		case c == '\'' || ((c == 'E' || c == 'e') && i+1 < len(s) && s[i+1] == '\''):
			escapes := false
			if c != '\'' {
				escapes = true
				i++
			}
			i++
			var val strings.Builder
			closed := false
			for i < len(s) {
				if s[i] == '\'' {
					if i+1 < len(s) && s[i+1] == '\'' {
						val.WriteByte('\'')
						i += 2
						continue
					}
					i++
					closed = true
					break
				}
				if escapes && s[i] == '\\' && i+1 < len(s) {
					val.WriteByte(s[i+1])
					i += 2
					continue
				}
				val.WriteByte(s[i])
				i++
			}
			if !closed {
				return out, fmt.Errorf("unterminated string literal")
			}
			out = append(out, sqlTok{"string", val.String()})
		case c == '"':
			i++
			var val strings.Builder
			closed := false
			for i < len(s) {
				if s[i] == '"' {
					if i+1 < len(s) && s[i+1] == '"' {
						val.WriteByte('"')
						i += 2
						continue
					}
					i++
					closed = true
					break
				}
				val.WriteByte(s[i])
				i++
			}
			if !closed {
				return out, fmt.Errorf("unterminated quoted identifier")
			}
			out = append(out, sqlTok{"qident", val.String()})
		case c == '$' && i+1 < len(s) && (s[i+1] == '$' || isIdentStart(s[i+1])):
			// dollar quoting $tag$ ... $tag$
			j := i + 1
			for j < len(s) && isIdentPart(s[j]) && s[j] != '$' {
				j++
			}
			if j < len(s) && s[j] == '$' {
				tag := s[i : j+1]
				end := strings.Index(s[j+1:], tag)
				if end < 0 {
					return out, fmt.Errorf("unterminated dollar quote")
				}
				out = append(out, sqlTok{"string", s[j+1 : j+1+end]})
				i = j + 1 + end + len(tag)
			} else {
				out = append(out, sqlTok{"op", "$"})
				i++
			}
		case c == '$' && i+1 < len(s) && s[i+1] >= '0' && s[i+1] <= '9':
			j := i + 1
			for j < len(s) && s[j] >= '0' && s[j] <= '9' {
				j++
			}
			out = append(out, sqlTok{"param", s[i:j]})
			i = j
		case c == '@' && i+1 < len(s) && isIdentStart(s[i+1]):
			j := i + 1
			for j < len(s) && isIdentPart(s[j]) {
				j++
			}
			out = append(out, sqlTok{"param", s[i:j]})
			i = j
		case isIdentStart(c):
			j := i
			for j < len(s) && isIdentPart(s[j]) {
				j++
			}
			out = append(out, sqlTok{"ident", strings.ToLower(s[i:j])})
			i = j
		case c >= '0' && c <= '9':
			j := i
			for j < len(s) && (s[j] >= '0' && s[j] <= '9' || s[j] == '.') {
				j++
			}
			out = append(out, sqlTok{"number", s[i:j]})
			i = j
		default:
			out = append(out, sqlTok{"op", string(c)})
			i++
		}
	}
	return out, nil
}

// cypher string literal for value v (single quoted, backslash escapes)
func cyString(v string) string {
	r := strings.NewReplacer(`\`, `\\`, `'`, `\'`)
	return "'" + r.Replace(v) + "'"
}

func cyBacktick(v string) string { return "`" + strings.ReplaceAll(v, "`", "``") + "`" }

func translateToSQL(q string, params map[string]any) (sqlText string, rerr error) {
	defer func() {
		if r := recover(); r != nil {
			sqlText, rerr = "", fmt.Errorf("PANIC: %v", r)
		}
	}()
	model, err := frontend.ParseCypher(frontend.NewContext(), q)
	if err != nil {
		return "", err
	}
	res, err := translate.Translate(context.Background(), model, newKindMapper(), params, translate.DefaultGraphID)
	if err != nil {
		return "", err
	}
	return translate.Translated(res)
}

func TestVerifBoundedSQLText(t *testing.T) {
	maxLen := 2
	if v, err := strconv.Atoi(os.Getenv("VERIF_BOUND")); err == nil && v > 0 {
		maxLen = v
	}
	alphabet := []string{"'", `"`, `\`, ";", "-", "a", " ", "$"}
	var values []string
	var gen func(cur string, n int)
	gen = func(cur string, n int) {
		if len(cur) > 0 {
			values = append(values, cur)
		}
		if n == 0 {
			return
		}
		for _, a := range alphabet {
			gen(cur+a, n-1)
		}
	}
	gen("", maxLen)
	values = append(values, "x'; drop table node; --", `x\'; select 1; --`, `x"; select 1; --`, "a$$b", "$q$x$q$", "/* c */", "x' or '1'='1", "é'ü", "'' ''")
	type position struct {
		name  string
		query func(v string) (string, map[string]any)
		// how the value must come back: "string" = the decoded value of exactly one string token; "ident" = one (quoted) identifier token
		want string
	}
	positions := []position{
		{"string literal", func(v string) (string, map[string]any) {
			return "match (n) where n.name = " + cyString(v) + " return n", nil
		}, "string"},
		{"property key", func(v string) (string, map[string]any) {
			return "match (n) where n." + cyBacktick(v) + " = 1 return n", nil
		}, "string"},
		{"map key", func(v string) (string, map[string]any) {
			return "match (n {" + cyBacktick(v) + ": 1}) return n", nil
		}, "string"},
		{"result alias", func(v string) (string, map[string]any) {
			return "match (n) return n.name as " + cyBacktick(v), nil
		}, "ident"},
		{"result alias used in order by", func(v string) (string, map[string]any) {
			return "match (n) return n.name as " + cyBacktick(v) + " order by " + cyBacktick(v), nil
		}, "free"},
		{"aggregate alias used in order by", func(v string) (string, map[string]any) {
			return "match (n)-[]->(m) with n, count(m) as " + cyBacktick(v) + " return n, " + cyBacktick(v) + " order by " + cyBacktick(v) + " desc limit 5", nil
		}, "free"},
		{"count alias of the aggregate traversal shape", func(v string) (string, map[string]any) {
			return "match (n:NodeKind1) match (n)-[:EdgeKind1*1..]->(m:NodeKind2) with n, count(m) as " + cyBacktick(v) + " return n, " + cyBacktick(v) + " order by " + cyBacktick(v) + " desc limit 5", nil
		}, "free"},
		{"variable name", func(v string) (string, map[string]any) {
			return "match (" + cyBacktick(v) + ") return " + cyBacktick(v), nil
		}, "free"},
		{"with alias", func(v string) (string, map[string]any) {
			return "match (n) with n.name as " + cyBacktick(v) + " return " + cyBacktick(v), nil
		}, "free"},
		{"kind name", func(v string) (string, map[string]any) {
			return "match (n:" + cyBacktick(v) + ") return n", nil
		}, "free"},
		{"relationship kind", func(v string) (string, map[string]any) {
			return "match (a)-[r:" + cyBacktick(v) + "]->(b) return a", nil
		}, "free"},
		{"string in list", func(v string) (string, map[string]any) {
			return "match (n) where n.name in [" + cyString(v) + ", 'b'] return n", nil
		}, "string"},
		{"starts with", func(v string) (string, map[string]any) {
			return "match (n) where n.name starts with " + cyString(v) + " return n", nil
		}, "free"},
	}
	skeleton := func(toks []sqlTok) string {
		var b strings.Builder
		for _, tk := range toks {
			switch tk.kind {
			case "string":
				b.WriteString("S ")
			case "qident":
				b.WriteString("I ")
			case "comment":
			default:
				b.WriteString(tk.kind + ":" + tk.text + " ")
			}
		}
		return b.String()
	}
	var failures []string
	failed := map[string]bool{}
	fail := func(pos, format string, args ...any) {
		if !failed[pos] && len(failures) < 8 {
			failed[pos] = true
			failures = append(failures, pos+": "+fmt.Sprintf(format, args...))
		}
	}
	cases := 0
	perPosition := map[string]int{}
	known := map[string]bool{}
	for _, k := range strings.Split(os.Getenv("VERIF_KNOWN"), "|") {
		if k = strings.TrimSpace(k); k != "" {
			known[k] = true
		}
	}
	knownHits := map[string]int{}
	// report: a violation found in one of the added classes (class "" = the original scope, never suppressed)
	report := func(class, pos, format string, args ...any) {
		if class != "" && known[class] {
			knownHits[class]++
			return
		}
		if class != "" {
			pos = class + "/" + pos
		}
		fail(pos, format, args...)
	}
	sweep := func(class string, values []string) {
	prefix := ""
	if class != "" {
		prefix = class + "/"
	}
	for _, pos := range positions {
		// benign reference: the skeleton for a plain value; unquoted identifiers count as identifier slots
		refQ, refP := pos.query("benign")
		refSQL, err := translateToSQL(refQ, refP)
		if err != nil {
			perPosition[prefix+pos.name+" (never reaches SQL text: "+err.Error()+")"] = 0
			continue
		}
		refToks, err := lexSQL(refSQL)
		if err != nil {
			report(class, pos.name, "benign SQL does not lex: %v", err)
			continue
		}
		refSkel := skeleton(refToks)
		refSkel = strings.ReplaceAll(refSkel, "ident:benign ", "I ")
		for _, v := range values {
			q, p := pos.query(v)
			sql, err := translateToSQL(q, p)
			if err != nil {
				if strings.HasPrefix(err.Error(), "PANIC: ") {
					report(class, pos.name, "value %q: the pipeline panics: %v", v, err)
				}
				continue // rejected: allowed by the property
			}
			cases++
			perPosition[prefix+pos.name]++
			toks, lerr := lexSQL(sql)
			if lerr != nil {
				report(class, pos.name, "value %q: emitted SQL does not lex (%v): %s", v, lerr, sql)
				continue
			}
			if got := skeleton(toks); got != refSkel {
				report(class, pos.name, "value %q changes the token structure of the statement: %s", v, sql)
				continue
			}
			if pos.want == "free" {
				continue
			}
			found := false
			for _, tk := range toks {
				if (pos.want == "string" && tk.kind == "string" || pos.want == "ident" && tk.kind == "qident") && tk.text == v {
					found = true
				}
			}
			if !found {
				report(class, pos.name, "value %q is not read back by PostgreSQL as the value the query denoted: %s", v, sql)
			}
		}
	}
	}
	sweep("", values)

	// ---- added input classes ----
	x := &xHarness{maxLen: maxLen, report: report, perPosition: perPosition, skeleton: skeleton}
	if seed, err := strconv.ParseInt(os.Getenv("VERIF_SEED"), 10, 64); err == nil {
		x.rng = rand.New(rand.NewSource(seed))
	}
	longValues := xLongValues()
	x.shuffle(longValues)
	sweep("long-values", longValues)
	x.fragmentSweep("long-values", xLongFragmentValues(), false)
	x.listSweep("long-lists")
	x.fragmentSweep("fragment-whitespace", xWhitespaceValues(maxLen), true)
	x.fragmentSweep("fragment-whitespace", values, false)
	x.paramSweep("param-types")
	cases += x.cases

	res := map[string]any{"name": "sqltext", "bound": fmt.Sprintf("all strings up to length %d over %d hostile characters + %d crafted, %d positions; + long values (%d), long lists (sizes 1,2,16,17,18,40), whitespace values (%d) in traversal fragments, parameter Go types (%d)", maxLen, len(alphabet), 9, len(positions), len(longValues), len(xWhitespaceValues(maxLen)), len(xParamValues())), "cases": cases, "per_position": perPosition, "exhaustive": true, "failures": failures, "known_deviation_hits": knownHits}
	out, _ := json.Marshal(res)
	fmt.Println("BOUNDED-RESULT " + string(out))
	if len(failures) > 0 {
		t.Fail()
	}
}
