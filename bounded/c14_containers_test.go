package container

// Bounded stand-in for C14 (labelled bounded, never counted as proved): exhaustive comparison of every
// in-memory container against a naive computation on the edge list, over ALL digraphs (self loops
// included) on VERIF_BOUND nodes. Run in-package through go test -overlay; prints one BOUNDED-RESULT line.

import (
	"bytes"
	"encoding/json"
	"fmt"
	"os"
	"sort"
	"strconv"
	"testing"

	"github.com/specterops/dawgs/cardinality"
	"github.com/specterops/dawgs/graph"
)

type vEdge struct{ s, e uint64 }

func vSorted(m map[uint64]bool) []uint64 {
	out := []uint64{}
	for k := range m {
		out = append(out, k)
	}
	sort.Slice(out, func(i, j int) bool { return out[i] < out[j] })
	return out
}

func vSet(xs []uint64) map[uint64]bool {
	m := map[uint64]bool{}
	for _, x := range xs {
		m[x] = true
	}
	return m
}

func vEq(a, b map[uint64]bool) bool {
	if len(a) != len(b) {
		return false
	}
	for k := range a {
		if !b[k] {
			return false
		}
	}
	return true
}

func vNaiveAdj(edges []vEdge, u uint64, d graph.Direction) map[uint64]bool {
	m := map[uint64]bool{}
	for _, e := range edges {
		if d != graph.DirectionInbound && e.s == u {
			m[e.e] = true
		}
		if d != graph.DirectionOutbound && e.e == u {
			m[e.s] = true
		}
	}
	return m
}

// nodes reachable in one or more steps, with BFS distances
func vNaiveReach(edges []vEdge, u uint64, d graph.Direction) map[uint64]int {
	dist := map[uint64]int{}
	frontier := []uint64{u}
	for depth := 1; len(frontier) > 0; depth++ {
		var next []uint64
		for _, x := range frontier {
			for _, v := range vSorted(vNaiveAdj(edges, x, d)) {
				if _, seen := dist[v]; !seen {
					dist[v] = depth
					next = append(next, v)
				}
			}
		}
		frontier = next
	}
	return dist
}

func TestVerifBoundedContainers(t *testing.T) {
	n := 3
	if v, err := strconv.Atoi(os.Getenv("VERIF_BOUND")); err == nil && v > 0 {
		n = v
	}
	// two id schemes: sparse ids (10, 17, 24, ...), and the dense indices themselves in rotated insertion order
	// (node inserted i-th has id (i+1) mod n), so that an id of one node equals the dense index of another
	idSchemes := [][]uint64{{}, {}}
	for i := 0; i < n; i++ {
		idSchemes[0] = append(idSchemes[0], uint64(10+7*i))
		idSchemes[1] = append(idSchemes[1], uint64((i+1)%n))
	}
	graphs, comparisons := 0, 0
	var failures []string
	for _, ids := range idSchemes {
		var pairs []vEdge
		for _, a := range ids {
			for _, b := range ids {
				pairs = append(pairs, vEdge{a, b})
			}
		}
		dirs := []graph.Direction{graph.DirectionOutbound, graph.DirectionInbound, graph.DirectionBoth}
		dirName := map[graph.Direction]string{graph.DirectionOutbound: "out", graph.DirectionInbound: "in", graph.DirectionBoth: "both"}
		fail := func(format string, args ...any) {
			if len(failures) < 5 {
				failures = append(failures, fmt.Sprintf(format, args...))
			}
		}
		total := 1 << uint(len(pairs))
		for mask := 0; mask < total; mask++ {
			var edges []vEdge
			for i, p := range pairs {
				if mask&(1<<uint(i)) != 0 {
					edges = append(edges, p)
				}
			}
			graphs++
			am := NewAdjacencyMapGraph()
			csrB := NewCSRDigraphBuilder()
			ts := NewTriplestore()
			for _, id := range ids {
				am.AddNode(id)
				csrB.AddNode(id)
				ts.(*triplestore).AddNode(id)
			}
			for i, e := range edges {
				am.AddEdge(e.s, e.e)
				csrB.AddEdge(e.s, e.e)
				ts.AddTriple(uint64(100+i), e.s, e.e)
			}
			containers := map[string]DirectedGraph{
				"adjacencymap": am, "csr": csrB.Build(), "triplestore": ts,
				"projection": ts.Projection(cardinality.NewBitmap64(), cardinality.NewBitmap64()),
			}
			for _, name := range []string{"adjacencymap", "csr", "triplestore", "projection"} {
				g := containers[name]
				comparisons++
				if got := g.NumNodes(); got != uint64(n) {
					fail("%s NumNodes=%d want %d edges=%v", name, got, n, edges)
				}
				nodes := map[uint64]bool{}
				g.EachNode(func(x uint64) bool { nodes[x] = true; return true })
				if !vEq(nodes, vSet(ids)) {
					fail("%s EachNode=%v want %v edges=%v", name, vSorted(nodes), ids, edges)
				}
				for _, u := range ids {
					for _, d := range dirs {
						comparisons++
						want := vNaiveAdj(edges, u, d)
						got := vSet(AdjacentNodes(g, u, d))
						if !vEq(got, want) {
							fail("%s adjacent(%d,%s)=%v want %v edges=%v", name, u, dirName[d], vSorted(got), vSorted(want), edges)
						}
						// the container's own accessors, where it has them
						if an, ok := g.(interface {
							AdjacentNodes(uint64, graph.Direction) []uint64
						}); ok {
							comparisons++
							if got := vSet(an.AdjacentNodes(u, d)); !vEq(got, want) {
								fail("%s AdjacentNodes(%d,%s)=%v want %v edges=%v", name, u, dirName[d], vSorted(got), vSorted(want), edges)
							}
						}
						if dg, ok := g.(interface {
							Degrees(uint64, graph.Direction) uint64
						}); ok && name != "csr" {
							comparisons++
							if got := dg.Degrees(u, d); got != uint64(len(want)) {
								fail("%s Degrees(%d,%s)=%d want %d edges=%v", name, u, dirName[d], got, len(want), edges)
							}
						}
						// reachability and BFS distances
						comparisons++
						wantReach := vNaiveReach(edges, u, d)
						gotReach := vSet(Reach(g, u, d).Slice())
						wr := map[uint64]bool{}
						for k := range wantReach {
							wr[k] = true
						}
						if !vEq(gotReach, wr) {
							fail("%s Reach(%d,%s)=%v want %v edges=%v", name, u, dirName[d], vSorted(gotReach), vSorted(wr), edges)
						}
						for _, term := range BFSTree(g, u, d) {
							if wantReach[term.Node] != term.Distance {
								fail("%s BFSTree(%d,%s) node %d distance %d want %d edges=%v", name, u, dirName[d], term.Node, term.Distance, wantReach[term.Node], edges)
							}
						}
					}
				}
			}
			// triple store indexes are exact
			tsi := ts.(*triplestore)
			for _, u := range ids {
				for _, d := range dirs {
					comparisons++
					want := map[uint64]bool{}
					for i, e := range edges {
						if (d != graph.DirectionInbound && e.s == u) || (d != graph.DirectionOutbound && e.e == u) {
							want[uint64(i)] = true
						}
					}
					if got := vSet(tsi.adjacentEdgeIndices(u, d).Slice()); !vEq(got, want) {
						fail("triplestore adjacentEdgeIndices(%d,%s)=%v want %v edges=%v", u, dirName[d], vSorted(got), vSorted(want), edges)
					}
				}
			}
			// deletion projections (every set of deleted nodes; deleting each single edge)
			if n <= 3 {
				for dn := 0; dn < 1<<uint(n); dn++ {
					delNodes := cardinality.NewBitmap64()
					for i, id := range ids {
						if dn&(1<<uint(i)) != 0 {
							delNodes.Add(id)
						}
					}
					for de := -1; de < len(edges); de++ {
						delEdges := cardinality.NewBitmap64()
						var kept []vEdge
						for i, e := range edges {
							if i == de {
								delEdges.Add(uint64(100 + i))
								continue
							}
							if delNodes.Contains(e.s) || delNodes.Contains(e.e) {
								continue
							}
							kept = append(kept, e)
						}
						proj := ts.Projection(delNodes, delEdges)
						for _, u := range ids {
							if delNodes.Contains(u) {
								continue
							}
							for _, d := range dirs {
								comparisons++
								want := vNaiveAdj(kept, u, d)
								got := vSet(AdjacentNodes(proj, u, d))
								if !vEq(got, want) {
									fail("projection(delNodes=%v,delEdge=%d) adjacent(%d,%s)=%v want %v edges=%v", delNodes.Slice(), de, u, dirName[d], vSorted(got), vSorted(want), edges)
								}
							}
						}
					}
				}
			}
		}
	} // id schemes
	fail := func(format string, args ...any) {
		if len(failures) < 5 {
			failures = append(failures, fmt.Sprintf(format, args...))
		}
	}
	// path segments: marshal/unmarshal round trip for every segment of depth <= 3 over small ids
	segs := 0
	var build func(depth int, cur *Segment)
	build = func(depth int, cur *Segment) {
		segs++
		var buf bytes.Buffer
		if err := MarshalSegment(cur, &buf); err != nil {
			fail("MarshalSegment: %v", err)
		}
		back := UnmarshalSegment(buf.Bytes())
		a, b := cur, back
		for a != nil && b != nil {
			if a.Node != b.Node || (a.Previous != nil && a.Edge != b.Edge) || (a.Previous == nil) != (b.Previous == nil) {
				fail("segment round trip differs: %s vs %s", cur.Format(), back.Format())
				break
			}
			a, b = a.Previous, b.Previous
		}
		if depth == 0 {
			return
		}
		for _, node := range []uint64{0, 1, 1 << 40} {
			for _, edge := range []uint64{0, 7} {
				build(depth-1, &Segment{Node: node, Edge: edge, Previous: cur})
			}
		}
	}
	for _, root := range []uint64{0, 5} {
		build(3, &Segment{Node: root})
	}
	res := map[string]any{"name": "containers", "bound": fmt.Sprintf("all digraphs with self loops on %d nodes, two id schemes (sparse ids; dense indices in rotated insertion order)", n), "graphs": graphs, "segments": segs, "cases": comparisons, "exhaustive": true, "failures": failures}
	out, _ := json.Marshal(res)
	fmt.Println("BOUNDED-RESULT " + string(out))
	if len(failures) > 0 {
		t.Fail()
	}
}
