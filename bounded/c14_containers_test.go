package container

// Bounded stand-in for C14 (labelled bounded, never counted as proved): exhaustive comparison of every
// in-memory container against a naive computation on the edge list, over ALL digraphs (self loops
// included) on VERIF_BOUND nodes. Run in-package through go test -overlay; prints one BOUNDED-RESULT line.
//
// Extension (functions prefixed vx, see the block comment "Extension X1-X4" below): for every digraph of the bound
// (bound > 3: every digraph with at most as many edges as nodes) and both id schemes additionally
//   X1 three insertion orders (all nodes first; edges first, then AddNode for the nodes no edge mentioned;
//      AddNode/AddEdge alternating), so isolated nodes are added before, between and after AddEdge calls;
//   X2 Normalize() of the adjacency map digraph and of the CSR digraph;
//   X3 (bound <= 3) deletion projections for EVERY subset of real node ids x EVERY subset of real edge ids,
//      each with and without ids the store has never seen, the latter also split over a nested projection;
//   X4 the complete observation is taken a second time on the same objects (queries must not change answers),
//      and again after appending to / overwriting every slice an AdjacentNodes-style accessor returned.
// The oracle of every extension check is the naive computation on the node list and edge list (vNaiveAdj,
// vNaiveReach) or, for X4, the container's own first answer. Deviation classes named in env VERIF_KNOWN
// ("|"-separated, exact class names, the name is the text in [..] at the start of a failure) are counted under
// known_deviation_hits instead of failures; nothing is suppressed in the file itself.

import (
	"bytes"
	"encoding/json"
	"fmt"
	"os"
	"runtime/debug"
	"slices"
	"sort"
	"strconv"
	"strings"
	"testing"

	"github.com/specterops/dawgs/cardinality"
	"github.com/specterops/dawgs/graph"
)

type vEdge struct{ s, e uint64 }

func vSorted(m map[uint64]bool) []uint64 {
	out := []uint64{}
	for k := range m {
		out = append(out, k)
	}
	sort.Slice(out, func(i, j int) bool { return out[i] < out[j] })
	return out
}

func vSet(xs []uint64) map[uint64]bool {
	m := map[uint64]bool{}
	for _, x := range xs {
		m[x] = true
	}
	return m
}

func vEq(a, b map[uint64]bool) bool {
	if len(a) != len(b) {
		return false
	}
	for k := range a {
		if !b[k] {
			return false
		}
	}
	return true
}

func vNaiveAdj(edges []vEdge, u uint64, d graph.Direction) map[uint64]bool {
	m := map[uint64]bool{}
	for _, e := range edges {
		if d != graph.DirectionInbound && e.s == u {
			m[e.e] = true
		}
		if d != graph.DirectionOutbound && e.e == u {
			m[e.s] = true
		}
	}
	return m
}

// nodes reachable in one or more steps, with BFS distances
func vNaiveReach(edges []vEdge, u uint64, d graph.Direction) map[uint64]int {
	dist := map[uint64]int{}
	frontier := []uint64{u}
	for depth := 1; len(frontier) > 0; depth++ {
		var next []uint64
		for _, x := range frontier {
			for _, v := range vSorted(vNaiveAdj(edges, x, d)) {
				if _, seen := dist[v]; !seen {
					dist[v] = depth
					next = append(next, v)
				}
			}
		}
		frontier = next
	}
	return dist
}

func TestVerifBoundedContainers(t *testing.T) {
	n := 3
	if v, err := strconv.Atoi(os.Getenv("VERIF_BOUND")); err == nil && v > 0 {
		n = v
	}
	// two id schemes: sparse ids (10, 17, 24, ...), and the dense indices themselves in rotated insertion order
	// (node inserted i-th has id (i+1) mod n), so that an id of one node equals the dense index of another
	idSchemes := [][]uint64{{}, {}}
	for i := 0; i < n; i++ {
		idSchemes[0] = append(idSchemes[0], uint64(10+7*i))
		idSchemes[1] = append(idSchemes[1], uint64((i+1)%n))
	}
	defer debug.SetGCPercent(debug.SetGCPercent(800)) // millions of short-lived bitmaps; the live heap stays tiny
	graphs, comparisons := 0, 0
	failures := []string{}
	failuresTotal := 0
	vx := vxNewState(&failures, &failuresTotal, &comparisons)
	for scheme, ids := range idSchemes {
		var pairs []vEdge
		for _, a := range ids {
			for _, b := range ids {
				pairs = append(pairs, vEdge{a, b})
			}
		}
		dirs := []graph.Direction{graph.DirectionOutbound, graph.DirectionInbound, graph.DirectionBoth}
		dirName := map[graph.Direction]string{graph.DirectionOutbound: "out", graph.DirectionInbound: "in", graph.DirectionBoth: "both"}
		fail := func(format string, args ...any) {
			failuresTotal++
			if len(failures) < 5 {
				failures = append(failures, fmt.Sprintf(format, args...))
			}
		}
		total := 1 << uint(len(pairs))
		for mask := 0; mask < total; mask++ {
			var edges []vEdge
			for i, p := range pairs {
				if mask&(1<<uint(i)) != 0 {
					edges = append(edges, p)
				}
			}
			graphs++
			am := NewAdjacencyMapGraph()
			csrB := NewCSRDigraphBuilder()
			ts := NewTriplestore()
			for _, id := range ids {
				am.AddNode(id)
				csrB.AddNode(id)
				ts.(*triplestore).AddNode(id)
			}
			for i, e := range edges {
				am.AddEdge(e.s, e.e)
				csrB.AddEdge(e.s, e.e)
				ts.AddTriple(uint64(100+i), e.s, e.e)
			}
			containers := map[string]DirectedGraph{
				"adjacencymap": am, "csr": csrB.Build(), "triplestore": ts,
				"projection": ts.Projection(cardinality.NewBitmap64(), cardinality.NewBitmap64()),
			}
			for _, name := range []string{"adjacencymap", "csr", "triplestore", "projection"} {
				g := containers[name]
				comparisons++
				if got := g.NumNodes(); got != uint64(n) {
					fail("%s NumNodes=%d want %d edges=%v", name, got, n, edges)
				}
				nodes := map[uint64]bool{}
				g.EachNode(func(x uint64) bool { nodes[x] = true; return true })
				if !vEq(nodes, vSet(ids)) {
					fail("%s EachNode=%v want %v edges=%v", name, vSorted(nodes), ids, edges)
				}
				for _, u := range ids {
					for _, d := range dirs {
						comparisons++
						want := vNaiveAdj(edges, u, d)
						got := vSet(AdjacentNodes(g, u, d))
						if !vEq(got, want) {
							fail("%s adjacent(%d,%s)=%v want %v edges=%v", name, u, dirName[d], vSorted(got), vSorted(want), edges)
						}
						// the container's own accessors, where it has them
						if an, ok := g.(interface {
							AdjacentNodes(uint64, graph.Direction) []uint64
						}); ok {
							comparisons++
							if got := vSet(an.AdjacentNodes(u, d)); !vEq(got, want) {
								fail("%s AdjacentNodes(%d,%s)=%v want %v edges=%v", name, u, dirName[d], vSorted(got), vSorted(want), edges)
							}
						}
						if dg, ok := g.(interface {
							Degrees(uint64, graph.Direction) uint64
						}); ok && name != "csr" {
							comparisons++
							if got := dg.Degrees(u, d); got != uint64(len(want)) {
								fail("%s Degrees(%d,%s)=%d want %d edges=%v", name, u, dirName[d], got, len(want), edges)
							}
						}
						// reachability and BFS distances
						comparisons++
						wantReach := vNaiveReach(edges, u, d)
						gotReach := vSet(Reach(g, u, d).Slice())
						wr := map[uint64]bool{}
						for k := range wantReach {
							wr[k] = true
						}
						if !vEq(gotReach, wr) {
							fail("%s Reach(%d,%s)=%v want %v edges=%v", name, u, dirName[d], vSorted(gotReach), vSorted(wr), edges)
						}
						for _, term := range BFSTree(g, u, d) {
							if wantReach[term.Node] != term.Distance {
								fail("%s BFSTree(%d,%s) node %d distance %d want %d edges=%v", name, u, dirName[d], term.Node, term.Distance, wantReach[term.Node], edges)
							}
						}
					}
				}
			}
			// triple store indexes are exact
			tsi := ts.(*triplestore)
			for _, u := range ids {
				for _, d := range dirs {
					comparisons++
					want := map[uint64]bool{}
					for i, e := range edges {
						if (d != graph.DirectionInbound && e.s == u) || (d != graph.DirectionOutbound && e.e == u) {
							want[uint64(i)] = true
						}
					}
					if got := vSet(tsi.adjacentEdgeIndices(u, d).Slice()); !vEq(got, want) {
						fail("triplestore adjacentEdgeIndices(%d,%s)=%v want %v edges=%v", u, dirName[d], vSorted(got), vSorted(want), edges)
					}
				}
			}
			// deletion projections (every set of deleted nodes; deleting each single edge)
			if n <= 3 {
				for dn := 0; dn < 1<<uint(n); dn++ {
					delNodes := cardinality.NewBitmap64()
					for i, id := range ids {
						if dn&(1<<uint(i)) != 0 {
							delNodes.Add(id)
						}
					}
					for de := -1; de < len(edges); de++ {
						delEdges := cardinality.NewBitmap64()
						var kept []vEdge
						for i, e := range edges {
							if i == de {
								delEdges.Add(uint64(100 + i))
								continue
							}
							if delNodes.Contains(e.s) || delNodes.Contains(e.e) {
								continue
							}
							kept = append(kept, e)
						}
						proj := ts.Projection(delNodes, delEdges)
						for _, u := range ids {
							if delNodes.Contains(u) {
								continue
							}
							for _, d := range dirs {
								comparisons++
								want := vNaiveAdj(kept, u, d)
								got := vSet(AdjacentNodes(proj, u, d))
								if !vEq(got, want) {
									fail("projection(delNodes=%v,delEdge=%d) adjacent(%d,%s)=%v want %v edges=%v", delNodes.Slice(), de, u, dirName[d], vSorted(got), vSorted(want), edges)
								}
							}
						}
					}
				}
			}
			// extension classes X1-X4 (the objects built above are not reused, except ts for X3); beyond 3 nodes only
			// for the digraphs with at most as many edges as nodes (the extension costs ~20x the checks above)
			if n <= 3 || len(edges) <= n {
				vx.run(scheme, n, ids, edges, len(pairs), ts.(*triplestore))
			}
		}
	} // id schemes
	fail := func(format string, args ...any) {
		failuresTotal++
		if len(failures) < 5 {
			failures = append(failures, fmt.Sprintf(format, args...))
		}
	}
	// path segments: marshal/unmarshal round trip for every segment of depth <= 3 over small ids
	segs := 0
	var build func(depth int, cur *Segment)
	build = func(depth int, cur *Segment) {
		segs++
		var buf bytes.Buffer
		if err := MarshalSegment(cur, &buf); err != nil {
			fail("MarshalSegment: %v", err)
		}
		back := UnmarshalSegment(buf.Bytes())
		a, b := cur, back
		for a != nil && b != nil {
			if a.Node != b.Node || (a.Previous != nil && a.Edge != b.Edge) || (a.Previous == nil) != (b.Previous == nil) {
				fail("segment round trip differs: %s vs %s", cur.Format(), back.Format())
				break
			}
			a, b = a.Previous, b.Previous
		}
		if depth == 0 {
			return
		}
		for _, node := range []uint64{0, 1, 1 << 40} {
			for _, edge := range []uint64{0, 7} {
				build(depth-1, &Segment{Node: node, Edge: edge, Previous: cur})
			}
		}
	}
	for _, root := range []uint64{0, 5} {
		build(3, &Segment{Node: root})
	}
	res := map[string]any{"name": "containers", "bound": fmt.Sprintf("all digraphs with self loops on %d nodes, two id schemes (sparse ids; dense indices in rotated insertion order); %s", n, vx.boundText(n)), "graphs": graphs, "segments": segs, "cases": comparisons, "exhaustive": true, "failures": failures,
		"failures_total": failuresTotal, "known_deviation_hits": vx.hits, "extension_cases": vx.counts}
	out, _ := json.Marshal(res)
	fmt.Println("BOUNDED-RESULT " + string(out))
	if len(failures) > 0 {
		t.Fail()
	}
}

// ---------------------------------------------------------------------------------------------------------
// Extension X1-X4
//
// Enumerated, per digraph G of the bound (edge list `edges` over the node list `ids`; for a bound above 3 only the
// digraphs with at most as many edges as nodes) and per id scheme:
//
//	X1  three build sequences (vxOps): "nodes-first" (AddNode for every id, then the edges), "edges-first" (the
//	    edges, then AddNode only for the ids no edge mentioned - these are exactly the isolated nodes) and
//	    "alternating" (AddNode(ids[0]), AddEdge(edges[0]), AddNode(ids[1]), AddEdge(edges[1]), ...). Each sequence is
//	    applied to the adjacency map, the CSR builder and the triple store; the four containers (the fourth is the
//	    projection with two empty deletion sets) are then observed completely (vxObserve): NumNodes, EachNode,
//	    and for every id plus one id that is not a node (0 in the sparse scheme - the dense index of the first node -
//	    and n in the dense scheme) and every direction: EachAdjacentNode, the AdjacentNodes / Degrees methods where
//	    the container has them, the package level Degrees, Reach, BFSTree. Oracle (vxCheck): node list and the
//	    naive adjacency / BFS on the edge list; the degree of a node is the number of its adjacent nodes.
//	X2  Normalize() of the adjacency map digraph and the CSR digraph of every build sequence: the mapping must be
//	    a bijection from 0..n-1 onto the node list, the normalised graph is observed completely with the ids
//	    0..n-1 (plus n) and compared with the naive computation on the edge list renamed through the inverse of
//	    the returned mapping; the two normalised graphs, mapped back through their own mappings, must be equal.
//	X3  (bound <= 3) on the triple store of the main loop: for every subset DN of the node ids and every subset DE
//	    of the edge ids, once as they are and once with never-seen ids added to both sets (among them: edge ids in
//	    the node set and node ids in the edge set): Projection(DN, DE), and for the sets with never-seen ids also
//	    split over two calls, Projection(DN, {}).Projection(never-seen node ids, DE + never-seen edge ids).
//	    Oracle: nodes = ids \ DN; kept edges = edges whose id is not in DE and whose endpoints are not in DN;
//	    NumNodes == number of EachNode deliveries == naive count, EachNode set, NumEdges/EachEdge, and EachAdjacentNode in three directions for every id (deleted ones included) and
//	    a non-node == naive adjacency on the kept edges. The caller's sets must be unchanged afterwards.
//	X4  after X1/X2 the complete observation (and Normalize) is repeated on the same objects and must be identical
//	    to the first; then every slice returned by AdjacentNodes(), AdjacentEdges(), the package level
//	    AdjacentNodes and Reach().Slice() gets one element appended (second round: every element overwritten) and the
//	    complete observation must be identical to the one taken immediately before (after damage the containers
//	    are rebuilt for the second round).

var vxDirs = []graph.Direction{graph.DirectionOutbound, graph.DirectionInbound, graph.DirectionBoth}

func vxDirName(d graph.Direction) string {
	switch d {
	case graph.DirectionOutbound:
		return "out"
	case graph.DirectionInbound:
		return "in"
	case graph.DirectionBoth:
		return "both"
	}
	return "-"
}

type vxLazy func() string

func (f vxLazy) String() string { return f() }

type vxQ struct {
	what string
	u    uint64
	d    graph.Direction
}

func (q vxQ) String() string {
	if q.what == "NumNodes" || q.what == "EachNode" {
		return q.what
	}
	return fmt.Sprintf("%s(%d,%s)", q.what, q.u, vxDirName(q.d))
}

type vxObs struct {
	q []vxQ
	v [][]uint64
}

func vxSortedCopy(xs []uint64) []uint64 {
	out := make([]uint64, len(xs))
	copy(out, xs)
	slices.Sort(out)
	return out
}

func vxSortedSet(xs []uint64) []uint64 { return slices.Compact(vxSortedCopy(xs)) }

type vxAdjacentNoder interface {
	AdjacentNodes(uint64, graph.Direction) []uint64
}
type vxAdjacentEdger interface {
	AdjacentEdges(uint64, graph.Direction) []uint64
}
type vxDegreer interface {
	Degrees(uint64, graph.Direction) uint64
}
type vxNormalizer interface {
	Normalize() ([]uint64, DirectedGraph)
}

// the complete observation of a container; never writes to anything the container returned
func vxObserve(g DirectedGraph, qids []uint64) *vxObs {
	o := &vxObs{}
	add := func(what string, u uint64, d graph.Direction, v []uint64) {
		o.q = append(o.q, vxQ{what, u, d})
		o.v = append(o.v, v)
	}
	add("NumNodes", 0, 0, []uint64{g.NumNodes()})
	var each []uint64
	g.EachNode(func(x uint64) bool { each = append(each, x); return true })
	slices.Sort(each)
	add("EachNode", 0, 0, each)
	an, hasAN := g.(vxAdjacentNoder)
	dg, hasDG := g.(vxDegreer)
	for _, u := range qids {
		for _, d := range vxDirs {
			add("EachAdjacentNode", u, d, vxSortedCopy(AdjacentNodes(g, u, d)))
			if hasAN {
				add("AdjacentNodes()", u, d, vxSortedCopy(an.AdjacentNodes(u, d)))
			}
			if hasDG {
				add("Degrees()", u, d, []uint64{dg.Degrees(u, d)})
			}
			add("Degrees(g)", u, d, []uint64{Degrees(g, u, d)})
			add("Reach", u, d, vxSortedCopy(Reach(g, u, d).Slice()))
			terms := BFSTree(g, u, d)
			sort.Slice(terms, func(i, j int) bool {
				if terms[i].Node != terms[j].Node {
					return terms[i].Node < terms[j].Node
				}
				return terms[i].Distance < terms[j].Distance
			})
			flat := make([]uint64, 0, 2*len(terms))
			for _, term := range terms {
				flat = append(flat, term.Node, uint64(term.Distance))
			}
			add("BFSTree", u, d, flat)
		}
	}
	return o
}

func vxDiff(a, b *vxObs) (int, bool) {
	if len(a.q) != len(b.q) {
		return -1, true
	}
	for i := range a.q {
		if a.q[i] != b.q[i] || !slices.Equal(a.v[i], b.v[i]) {
			return i, true
		}
	}
	return 0, false
}

// the naive computation on the node list and the edge list
type vxNaive struct {
	nodes []uint64 // sorted
	edges []vEdge
	adj   map[vxQ][]uint64       // key {"", u, d}: sorted adjacent set
	dist  map[vxQ]map[uint64]int // key {"", u, d}: BFS distances (one or more steps)
}

func vxNewNaive(nodes []uint64, edges []vEdge, qids []uint64) *vxNaive {
	nv := &vxNaive{nodes: vxSortedCopy(nodes), edges: edges, adj: map[vxQ][]uint64{}, dist: map[vxQ]map[uint64]int{}}
	for _, u := range qids {
		for _, d := range vxDirs {
			nv.adj[vxQ{"", u, d}] = vSorted(vNaiveAdj(edges, u, d))
			nv.dist[vxQ{"", u, d}] = vNaiveReach(edges, u, d)
		}
	}
	return nv
}

type vxState struct {
	failures    *[]string
	total       *int
	comparisons *int
	known       map[string]bool
	hits        map[string]int
	perClass    map[string]int
	counts      map[string]int
}

func vxNewState(failures *[]string, total *int, comparisons *int) *vxState {
	s := &vxState{failures: failures, total: total, comparisons: comparisons, known: map[string]bool{}, hits: map[string]int{}, perClass: map[string]int{}, counts: map[string]int{}}
	for _, c := range strings.Split(os.Getenv("VERIF_KNOWN"), "|") {
		if c = strings.TrimSpace(c); c != "" {
			s.known[c] = true
		}
	}
	return s
}

// a deviation of class `class`: counted when the class is listed in VERIF_KNOWN, a failure otherwise (at most two
// messages per class and eight in total are kept; failures_total counts all)
// outsideTheStatement: observations the C14 statement does not speak about (it is about node sets and SETS of adjacent
// nodes): how a multi-edge or a self loop is counted by Degrees in direction both, and whether a slice handed out by an
// accessor may be written to by the caller. They are counted as notes, never as failures.
var vxOutsideTheStatement = map[string]bool{
	"degrees-both-counts-edges-csr": true, "degrees-both-counts-edges-projection": true, "degrees-both-counts-edges-projection taken first": true,
	"slice-append-csr": true, "slice-overwrite-csr": true,
}

func (s *vxState) dev(class string, format string, args ...any) {
	if vxOutsideTheStatement[class] {
		s.hits["note:"+class]++
		return
	}
	if s.known[class] {
		s.hits[class]++
		return
	}
	*s.total++
	s.perClass[class]++
	if s.perClass[class] <= 2 && len(*s.failures) < 8 {
		*s.failures = append(*s.failures, "["+class+"] "+fmt.Sprintf(format, args...))
	}
}

func (s *vxState) count(what string, n int) {
	s.counts[what] += n
	*s.comparisons += n
}

func (s *vxState) guard(class string, ctx fmt.Stringer, f func()) {
	defer func() {
		if r := recover(); r != nil {
			s.dev("panic-"+class, "panic %v; %s", r, ctx)
		}
	}()
	f()
}

func (s *vxState) boundText(n int) string {
	x3 := "deletion projections for every subset of node ids x every subset of edge ids, with and without never-seen ids (those also as a projection of a projection)"
	if n > 3 {
		x3 = "(extended deletion projections only up to 3 nodes)"
	}
	scope := "per digraph: "
	if n > 3 {
		scope = fmt.Sprintf("per digraph with at most %d edges: ", n)
	}
	return scope + "3 insertion orders (nodes first / edges first then the isolated nodes / alternating) x 4 containers completely observed incl. one non-node id, Normalize of adjacency map and CSR, everything observed twice and again after appending to / overwriting returned slices; " + x3
}

// compares one complete observation with the naive computation. name: the object, kind: the container type
func (s *vxState) check(o *vxObs, nv *vxNaive, class, name, kind string, ctx fmt.Stringer) {
	s.count(class, len(o.q))
	for i, q := range o.q {
		got := o.v[i]
		key := vxQ{"", q.u, q.d}
		switch q.what {
		case "NumNodes":
			if got[0] != uint64(len(nv.nodes)) {
				s.dev(class, "%s NumNodes=%d want %d; %s", name, got[0], len(nv.nodes), ctx)
			}
		case "EachNode":
			if !slices.Equal(got, nv.nodes) {
				s.dev(class, "%s EachNode delivered %v want %v; %s", name, got, nv.nodes, ctx)
			}
		case "EachAdjacentNode", "AdjacentNodes()":
			if want := nv.adj[key]; !slices.Equal(slices.Compact(slices.Clone(got)), want) {
				s.dev(class, "%s %s=%v want the set %v; %s", name, q, got, want, ctx)
			}
		case "Degrees()", "Degrees(g)":
			if want := uint64(len(nv.adj[key])); got[0] != want {
				cls := class
				edgesAt := uint64(len(nv.adj[vxQ{"", q.u, graph.DirectionOutbound}]) + len(nv.adj[vxQ{"", q.u, graph.DirectionInbound}]))
				if q.d == graph.DirectionBoth && got[0] > want && got[0] <= edgesAt {
					// the answer counts a neighbour that is both an in- and an out-neighbour (or the node itself under a
					// self loop) more than once: its own class, so that it can be triaged separately
					cls = "degrees-both-counts-edges-" + kind
				}
				s.dev(cls, "%s %s=%d want %d (adjacent nodes %v); %s", name, q, got[0], want, nv.adj[key], ctx)
			}
		case "Reach":
			want := make([]uint64, 0, len(nv.dist[key]))
			for k := range nv.dist[key] {
				want = append(want, k)
			}
			slices.Sort(want)
			if !slices.Equal(got, want) {
				s.dev(class, "%s %s=%v want %v; %s", name, q, got, want, ctx)
			}
		case "BFSTree":
			dist := nv.dist[key]
			want := make([]uint64, 0, 2*len(dist))
			for k := range dist {
				want = append(want, k)
			}
			slices.Sort(want)
			flat := make([]uint64, 0, 2*len(want))
			for _, k := range want {
				flat = append(flat, k, uint64(dist[k]))
			}
			if !slices.Equal(got, flat) {
				s.dev(class, "%s %s (node,distance pairs)=%v want %v; %s", name, q, got, flat, ctx)
			}
		}
	}
}

type vxOp struct {
	node   bool
	a, b   uint64
	edgeID uint64
}

var vxPatternNames = []string{"nodes-first", "edges-first", "alternating"}

func vxOps(pattern int, ids []uint64, edges []vEdge) []vxOp {
	var ops []vxOp
	nodeOp := func(id uint64) vxOp { return vxOp{node: true, a: id} }
	edgeOp := func(i int) vxOp { return vxOp{a: edges[i].s, b: edges[i].e, edgeID: uint64(100 + i)} }
	switch pattern {
	case 0:
		for _, id := range ids {
			ops = append(ops, nodeOp(id))
		}
		for i := range edges {
			ops = append(ops, edgeOp(i))
		}
	case 1:
		mentioned := map[uint64]bool{}
		for i, e := range edges {
			ops = append(ops, edgeOp(i))
			mentioned[e.s], mentioned[e.e] = true, true
		}
		for _, id := range ids {
			if !mentioned[id] {
				ops = append(ops, nodeOp(id))
			}
		}
	default:
		for i := 0; i < len(ids) || i < len(edges); i++ {
			if i < len(ids) {
				ops = append(ops, nodeOp(ids[i]))
			}
			if i < len(edges) {
				ops = append(ops, edgeOp(i))
			}
		}
	}
	return ops
}

func vxOpsString(ops []vxOp) string {
	var parts []string
	for _, op := range ops {
		if op.node {
			parts = append(parts, fmt.Sprintf("AddNode(%d)", op.a))
		} else {
			parts = append(parts, fmt.Sprintf("AddEdge#%d(%d,%d)", op.edgeID, op.a, op.b))
		}
	}
	return strings.Join(parts, " ")
}

// "projection taken first": a projection (two empty deletion sets) obtained from the still empty store and looked at
// once - nodes, edges, counts - BEFORE anything is built. A projection keeps a reference to its store and to the deletion
// sets it was given (it copies neither), so it presents whatever the store holds at the time it is asked; whatever it is
// asked first, its node set, its node count and its adjacency must describe the same graph afterwards.
var vxContainerNames = []string{"adjacencymap", "csr", "triplestore", "projection", "projection taken first"}

func vxBuild(ops []vxOp) map[string]DirectedGraph {
	am := NewAdjacencyMapGraph()
	csrB := NewCSRDigraphBuilder()
	ts := NewTriplestore()
	early := ts.Projection(cardinality.NewBitmap64(), cardinality.NewBitmap64())
	early.EachNode(func(uint64) bool { return true })
	early.EachEdge(func(Edge) bool { return true })
	early.NumNodes()
	early.NumEdges()
	for _, op := range ops {
		if !op.node {
			for _, d := range vxDirs {
				early.EachAdjacentNode(op.a, d, func(uint64) bool { return true })
			}
		}
	}
	for _, op := range ops {
		if op.node {
			am.AddNode(op.a)
			csrB.AddNode(op.a)
			ts.(*triplestore).AddNode(op.a)
		} else {
			am.AddEdge(op.a, op.b)
			csrB.AddEdge(op.a, op.b)
			ts.AddTriple(op.edgeID, op.a, op.b)
		}
	}
	return map[string]DirectedGraph{
		"adjacencymap": am, "csr": csrB.Build(), "triplestore": ts,
		"projection": ts.Projection(cardinality.NewBitmap64(), cardinality.NewBitmap64()),
		"projection taken first": early,
	}
}

// what a caller may do with a slice it was handed: append to it (mode 0) or overwrite its elements (mode 1)
func vxScribble(g DirectedGraph, qids []uint64, mode int) {
	an, hasAN := g.(vxAdjacentNoder)
	ae, hasAE := g.(vxAdjacentEdger)
	for _, u := range qids {
		for _, d := range vxDirs {
			var returned [][]uint64
			if hasAN {
				returned = append(returned, an.AdjacentNodes(u, d))
			}
			if hasAE {
				returned = append(returned, ae.AdjacentEdges(u, d))
			}
			returned = append(returned, AdjacentNodes(g, u, d), Reach(g, u, d).Slice())
			for _, sl := range returned {
				if mode == 0 {
					sl = append(sl, 0xDEAD0001)
					_ = sl
				} else {
					for i := range sl {
						sl[i] = ^sl[i]
					}
				}
			}
		}
	}
}

type vxNormal struct {
	rev  []uint64 // the returned mapping (copy)
	back []uint64 // per original node (ascending) and direction out, in: number of neighbours, then the neighbours mapped back (sorted)
	ok   bool
}

// X2 for one container. full: also observe the normalised graph completely against the renamed edge list
func (s *vxState) normalize(g DirectedGraph, kind string, nv *vxNaive, full bool, ctx fmt.Stringer) vxNormal {
	nz, has := g.(vxNormalizer)
	if !has {
		s.dev("normalize", "%s has no Normalize(); %s", kind, ctx)
		return vxNormal{}
	}
	rev, ng := nz.Normalize()
	res := vxNormal{rev: slices.Clone(rev)}
	nn := len(nv.nodes)
	s.count("normalize", 2)
	if len(rev) != nn {
		s.dev("normalize", "%s Normalize: mapping %v has %d entries, the graph has the %d nodes %v; %s", kind, rev, len(rev), nn, nv.nodes, ctx)
		return res
	}
	if !slices.Equal(vxSortedCopy(rev), nv.nodes) {
		s.dev("normalize", "%s Normalize: mapping %v is not a bijection onto the nodes %v; %s", kind, rev, nv.nodes, ctx)
		return res
	}
	inv := map[uint64]uint64{}
	for i, id := range res.rev {
		inv[id] = uint64(i)
	}
	if full {
		var renamed []vEdge
		for _, e := range nv.edges {
			renamed = append(renamed, vEdge{inv[e.s], inv[e.e]})
		}
		normalIDs := make([]uint64, nn)
		for i := range normalIDs {
			normalIDs[i] = uint64(i)
		}
		qids := append(slices.Clone(normalIDs), uint64(nn))
		nvN := vxNewNaive(normalIDs, renamed, qids)
		lazy := vxLazy(func() string { return fmt.Sprintf("mapping normal->original %v; %s", res.rev, ctx) })
		s.check(vxObserve(ng, qids), nvN, "normalize", "normalized("+kind+")", kind, lazy)
	}
	res.ok = true
	for _, u := range nv.nodes {
		for _, d := range vxDirs[:2] {
			var mapped []uint64
			for _, x := range AdjacentNodes(ng, inv[u], d) {
				if x < uint64(nn) {
					mapped = append(mapped, res.rev[x])
				} else {
					mapped = append(mapped, ^uint64(0)) // not a normal id
				}
			}
			slices.Sort(mapped)
			res.back = append(res.back, uint64(len(mapped)))
			res.back = append(res.back, mapped...)
		}
	}
	// the caller owns the mapping
	for i := range rev {
		rev[i] = ^rev[i]
	}
	return res
}

func (s *vxState) run(scheme, n int, ids []uint64, edges []vEdge, numPairs int, ts0 *triplestore) {
	nonNode := uint64(n)
	if scheme == 0 {
		nonNode = 0
	}
	qids := append(slices.Clone(ids), nonNode)
	nv := vxNewNaive(ids, edges, qids)
	for pattern := range vxPatternNames {
		ops := vxOps(pattern, ids, edges)
		ctx := vxLazy(func() string {
			return fmt.Sprintf("order=%s build=[%s]", vxPatternNames[pattern], vxOpsString(ops))
		})
		s.guard("interleave", ctx, func() { s.runPattern(ops, qids, nv, ctx) })
	}
	if n <= 3 {
		ctx := vxLazy(func() string {
			return fmt.Sprintf("store: nodes %v added first, then edges (id 100+i) %v", ids, edges)
		})
		s.guard("ts-traversal", ctx, func() { s.runTSTraversals(ids, edges, ts0, ctx) })
		s.guard("projection-sets", ctx, func() { s.runProjections(ids, edges, numPairs, nonNode, ts0, ctx) })
		s.guard("projection-sets", ctx, func() {
			s.check(vxObserve(ts0, qids), nv, "purity-after-projections", "triplestore", "triplestore", ctx)
		})
	}
}

// X5. TSBFS and TSDFS (the walk enumerators over a triple store, observation points of C14): every root, outbound and
// inbound, maxDepth 1..3 (a positive bound keeps the walks finite on cyclic graphs), descent filters {accept every edge,
// reject every edge, reject exactly one edge, accept exactly one edge}. Oracle, written from the doc of the two
// functions and not from their code: a naive recursive enumeration of the walks from the root over accepted edges; a
// walk of at least one edge is handed to the handler when nothing extends it - no adjacent edge is accepted, or it is
// longer than the bound - and the returned number counts the walks cut by the bound. Both functions must hand over
// exactly that multiset of walks (as edge id sequences) and return that number.
func (s *vxState) runTSTraversals(ids []uint64, edges []vEdge, ts *triplestore, ctx fmt.Stringer) {
	type filter struct {
		name   string
		accept func(edgeID uint64) bool
	}
	filters := []filter{{"accept all", func(uint64) bool { return true }}, {"reject all", func(uint64) bool { return false }}}
	for i := range edges {
		id := uint64(100 + i)
		filters = append(filters, filter{fmt.Sprintf("reject edge %d", id), func(e uint64) bool { return e != id }})
		filters = append(filters, filter{fmt.Sprintf("accept only edge %d", id), func(e uint64) bool { return e == id }})
	}
	for _, root := range ids {
		for _, dir := range []graph.Direction{graph.DirectionOutbound, graph.DirectionInbound} {
			for maxDepth := 1; maxDepth <= 3; maxDepth++ {
				for _, f := range filters {
					// naive enumeration
					want := map[string]int{}
					wantCut := 0
					var walk func(node uint64, depthNodes int, path string)
					walk = func(node uint64, depthNodes int, path string) {
						exceeded := maxDepth < depthNodes
						pushed := 0
						if !exceeded {
							for i, e := range edges {
								id := uint64(100 + i)
								from, to := e.s, e.e
								if dir == graph.DirectionInbound {
									from, to = e.e, e.s
								}
								if from == node && f.accept(id) {
									pushed++
									walk(to, depthNodes+1, path+fmt.Sprintf("%d>", id))
								}
							}
						}
						if depthNodes > 1 && pushed == 0 {
							want[path]++
							if exceeded {
								wantCut++
							}
						}
					}
					walk(root, 1, "")
					for _, impl := range []struct {
						name string
						run  func(Triplestore, uint64, graph.Direction, int, func(Edge) bool, func(*Segment) bool) int
					}{{"TSBFS", TSBFS}, {"TSDFS", TSDFS}} {
						s.count("ts-traversal", 1)
						got := map[string]int{}
						cut := impl.run(ts, root, dir, maxDepth, func(e Edge) bool { return f.accept(e.ID) }, func(seg *Segment) bool {
							var ids []uint64
							for c := seg; c != nil && c.Previous != nil; c = c.Previous {
								ids = append(ids, c.Edge)
							}
							path := ""
							for i := len(ids) - 1; i >= 0; i-- {
								path += fmt.Sprintf("%d>", ids[i])
							}
							got[path]++
							return true
						})
						if fmt.Sprint(got) != fmt.Sprint(want) || cut != wantCut {
							s.dev("ts-traversal", "%s(root=%d, %s, maxDepth=%d, filter: %s) handed over walks %v and returned %d; naive enumeration: %v and %d; %s", impl.name, root, vxDirName(dir), maxDepth, f.name, got, cut, want, wantCut, ctx)
						}
					}
				}
			}
		}
	}
}

func (s *vxState) runPattern(ops []vxOp, qids []uint64, nv *vxNaive, ctx fmt.Stringer) {
	cs := vxBuild(ops)
	// X1: first complete observation against the naive computation
	first := map[string]*vxObs{}
	for _, name := range vxContainerNames {
		first[name] = vxObserve(cs[name], qids)
		s.check(first[name], nv, "interleave", name, name, ctx)
	}
	// X2
	normal := map[string]vxNormal{}
	for _, name := range vxContainerNames[:2] {
		normal[name] = s.normalize(cs[name], name, nv, true, ctx)
	}
	if a, c := normal["adjacencymap"], normal["csr"]; a.ok && c.ok {
		s.count("normalize", 1)
		if !slices.Equal(a.back, c.back) {
			s.dev("normalize", "normalised graphs mapped back through their own mappings differ: adjacencymap %v (mapping %v) csr %v (mapping %v) [per node ascending, out then in: count, neighbours]; %s", a.back, a.rev, c.back, c.rev, ctx)
		}
	}
	// X4a: the same questions again on the same objects
	for _, name := range vxContainerNames[:2] {
		again := s.normalize(cs[name], name, nv, false, ctx)
		s.count("purity", 1)
		if !slices.Equal(again.rev, normal[name].rev) || !slices.Equal(again.back, normal[name].back) {
			s.dev("purity-"+name, "%s Normalize answers differently the second time: mapping %v then %v, mapped-back adjacency %v then %v; %s", name, normal[name].rev, again.rev, normal[name].back, again.back, ctx)
		}
	}
	baseline := map[string]*vxObs{} // the answers immediately before the caller touches returned slices
	for _, name := range vxContainerNames {
		again := vxObserve(cs[name], qids)
		baseline[name] = again
		s.count("purity", len(again.q))
		if i, differs := vxDiff(first[name], again); differs {
			s.dev("purity-"+name, "%s answers differently after read-only queries: %s; %s", name, vxDiffText(first[name], again, i), ctx)
		}
	}
	// X4b: the caller appends to / overwrites the slices it was handed
	for mode, modeName := range []string{"append", "overwrite"} {
		for _, name := range vxContainerNames {
			vxScribble(cs[name], qids, mode)
		}
		damaged := false
		for _, name := range vxContainerNames {
			after := vxObserve(cs[name], qids)
			s.count("slice-"+modeName, len(after.q))
			if i, differs := vxDiff(baseline[name], after); differs {
				damaged = true
				s.dev("slice-"+modeName+"-"+name, "%s answers differently after the caller did %s on every slice returned by AdjacentNodes()/AdjacentEdges()/AdjacentNodes(g)/Reach().Slice() for every node and direction: %s; %s", name, map[int]string{0: "append(s, 0xDEAD0001)", 1: "s[i] = ^s[i]"}[mode], vxDiffText(baseline[name], after, i), ctx)
			}
		}
		if damaged && mode == 0 {
			cs = vxBuild(ops)
			for _, name := range vxContainerNames {
				baseline[name] = vxObserve(cs[name], qids)
			}
		}
	}
}

func vxDiffText(a, b *vxObs, i int) string {
	if i < 0 {
		return fmt.Sprintf("%d answers then %d", len(a.q), len(b.q))
	}
	return fmt.Sprintf("%s was %v now %v", a.q[i], a.v[i], b.v[i])
}

func vxAdjSorted(edges []vEdge, u uint64, d graph.Direction) []uint64 {
	var out []uint64
	for _, e := range edges {
		if d != graph.DirectionInbound && e.s == u {
			out = append(out, e.e)
		}
		if d != graph.DirectionOutbound && e.e == u {
			out = append(out, e.s)
		}
	}
	slices.Sort(out)
	return slices.Compact(out)
}

// X3
func (s *vxState) runProjections(ids []uint64, edges []vEdge, numPairs int, nonNode uint64, ts *triplestore, ctx fmt.Stringer) {
	isNode := func(x uint64) bool { return slices.Contains(ids, x) }
	isEdgeID := func(x uint64) bool { return x >= 100 && x < uint64(100+len(edges)) }
	// ids the store has never seen as node ids resp. edge ids; edge ids go into the node set and node ids into the edge set
	var strangeNodes, strangeEdges []uint64
	for _, x := range []uint64{0, 7, 99, 100, 101, uint64(100 + numPairs), 1 << 40} {
		if !isNode(x) {
			strangeNodes = append(strangeNodes, x)
		}
	}
	for _, x := range append(slices.Clone(ids), 0, 99, uint64(100+len(edges)), uint64(100+numPairs), 1<<40) {
		if !isEdgeID(x) {
			strangeEdges = append(strangeEdges, x)
		}
	}
	strangeNodes, strangeEdges = vxSortedSet(strangeNodes), vxSortedSet(strangeEdges)
	qids := append(slices.Clone(ids), nonNode)
	for dn := 0; dn < 1<<uint(len(ids)); dn++ {
		var delN, wantNodes []uint64
		for i, id := range ids {
			if dn&(1<<uint(i)) != 0 {
				delN = append(delN, id)
			} else {
				wantNodes = append(wantNodes, id)
			}
		}
		slices.Sort(wantNodes)
		for de := 0; de < 1<<uint(len(edges)); de++ {
			var delE, keptIDs []uint64
			var kept []vEdge
			for i, e := range edges {
				switch {
				case de&(1<<uint(i)) != 0:
					delE = append(delE, uint64(100+i))
				case slices.Contains(delN, e.s) || slices.Contains(delN, e.e):
				default:
					kept = append(kept, e)
					keptIDs = append(keptIDs, uint64(100+i))
				}
			}
			wantAdj := make([][]uint64, 0, len(qids)*3)
			for _, u := range qids {
				for _, d := range vxDirs {
					wantAdj = append(wantAdj, vxAdjSorted(kept, u, d))
				}
			}
			for variant := 0; variant < 2; variant++ {
				allN, allE := slices.Clone(delN), slices.Clone(delE)
				var extraN []uint64
				if variant == 1 {
					allN, allE = append(allN, strangeNodes...), append(allE, strangeEdges...)
					extraN = strangeNodes
				}
				for nested := 0; nested <= variant; nested++ { // the nested form only with the never-seen ids (in the second call)
					bmN, bmE := cardinality.NewBitmap64With(allN...), cardinality.NewBitmap64With(allE...)
					var proj Triplestore
					var bmN1, bmE1, bmN2 cardinality.Duplex[uint64]
					if nested == 0 {
						proj = ts.Projection(bmN, bmE)
					} else {
						bmN1, bmE1, bmN2 = cardinality.NewBitmap64With(delN...), cardinality.NewBitmap64(), cardinality.NewBitmap64With(extraN...)
						proj = ts.Projection(bmN1, bmE1).Projection(bmN2, bmE)
					}
					what := vxLazy(func() string {
						if nested == 0 {
							return fmt.Sprintf("Projection(deletedNodes=%v, deletedEdges=%v)", allN, allE)
						}
						return fmt.Sprintf("Projection(deletedNodes=%v, deletedEdges=[]).Projection(deletedNodes=%v, deletedEdges=%v)", delN, extraN, allE)
					})
					s.count("projection-sets", 4+len(wantAdj))
					var each []uint64
					proj.EachNode(func(x uint64) bool { each = append(each, x); return true })
					slices.Sort(each)
					if got := proj.NumNodes(); got != uint64(len(each)) || got != uint64(len(wantNodes)) {
						s.dev("projection-sets", "%s NumNodes=%d, EachNode delivered %d nodes %v, want %d nodes %v; %s", what, got, len(each), each, len(wantNodes), wantNodes, ctx)
					} else if !slices.Equal(each, wantNodes) {
						s.dev("projection-sets", "%s EachNode delivered %v want %v; %s", what, each, wantNodes, ctx)
					}
					var eachEdge []uint64
					proj.EachEdge(func(e Edge) bool { eachEdge = append(eachEdge, e.ID); return true })
					slices.Sort(eachEdge)
					if got := proj.NumEdges(); got != uint64(len(keptIDs)) || !slices.Equal(eachEdge, keptIDs) {
						s.dev("projection-sets", "%s NumEdges=%d EachEdge delivered %v want the edges %v; %s", what, got, eachEdge, keptIDs, ctx)
					}
					k := 0
					for _, u := range qids {
						for _, d := range vxDirs {
							if got := vxSortedSet(AdjacentNodes(proj, u, d)); !slices.Equal(got, wantAdj[k]) {
								s.dev("projection-sets", "%s adjacent(%d,%s)=%v want %v (kept edges %v); %s", what, u, vxDirName(d), got, wantAdj[k], kept, ctx)
							}
							k++
						}
					}
					// the sets belong to the caller
					unchanged := bmN.Cardinality() == uint64(len(allN)) && bmE.Cardinality() == uint64(len(allE))
					if nested == 1 {
						unchanged = bmE.Cardinality() == uint64(len(allE)) && bmN1.Cardinality() == uint64(len(delN)) && bmE1.Cardinality() == 0 && bmN2.Cardinality() == uint64(len(extraN))
					}
					if !unchanged {
						s.dev("projection-sets", "%s changed the deletion sets it was given; %s", what, ctx)
					}
				}
			}
		}
	}
}
