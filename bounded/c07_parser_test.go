package frontend_test

// Bounded stand-in for C07 (labelled bounded, never counted as proved):
//   * emit-parse fixed point: for every query of the positive and mutation fixtures, parse -> emit -> parse
//     gives an equal model and emit is then a fixed point;
//   * range literals: every form of [*], [*a], [*a..], [*..b], [*a..b] for small a, b is modelled with the
//     bounds openCypher assigns to it;
//   * syntax the model cannot represent is reported: one query per unsupported construct must be rejected.

import (
	"encoding/json"
	"fmt"
	"reflect"
	"testing"

	"github.com/specterops/dawgs/cypher/frontend"
	"github.com/specterops/dawgs/cypher/models/cypher"
	"github.com/specterops/dawgs/cypher/models/cypher/format"
	"github.com/specterops/dawgs/cypher/test"
)

func firstRange(q *cypher.RegularQuery) *cypher.PatternRange {
	var found *cypher.PatternRange
	for _, rc := range q.SingleQuery.SinglePartQuery.ReadingClauses {
		if rc.Match == nil {
			continue
		}
		for _, part := range rc.Match.Pattern {
			for _, el := range part.PatternElements {
				if rp, ok := el.AsRelationshipPattern(); ok && rp.Range != nil {
					found = rp.Range
				}
			}
		}
	}
	return found
}

func TestVerifBoundedParser(t *testing.T) {
	var failures []string
	fail := func(format string, args ...any) {
		if len(failures) < 6 {
			failures = append(failures, fmt.Sprintf(format, args...))
		}
	}
	cases := 0
	var queries []string
	for _, fixture := range []string{test.PositiveTestCases, test.MutationTestCases} {
		for _, testCase := range test.LoadFixture(t, fixture).RunnableCases() {
			if testCase.Type == test.TypeStringMatch {
				if details, err := test.UnmarshallTestCaseDetails[test.StringMatchTest](testCase); err == nil {
					queries = append(queries, details.Query)
				}
			}
		}
	}
	for _, q := range queries {
		m1, err := frontend.ParseCypher(frontend.NewContext(), q)
		if err != nil {
			continue
		}
		cases++
		t1, err := format.RegularQuery(m1, false)
		if err != nil {
			fail("emit failed for %q: %v", q, err)
			continue
		}
		m2, err := frontend.ParseCypher(frontend.NewContext(), t1)
		if err != nil {
			fail("emitted text does not parse: %q -> %q: %v", q, t1, err)
			continue
		}
		t2, _ := format.RegularQuery(m2, false)
		if t2 != t1 {
			fail("emit-parse is not a fixed point: %q -> %q -> %q", q, t1, t2)
		}
		if !reflect.DeepEqual(m1, m2) {
			fail("re-parsed model differs for %q (emitted %q)", q, t1)
		}
	}
	// range literals
	i64 := func(v int64) *int64 { return &v }
	type rangeCase struct {
		text       string
		start, end *int64
	}
	rangeCases := []rangeCase{{"*", nil, nil}}
	for a := int64(0); a <= 3; a++ {
		rangeCases = append(rangeCases, rangeCase{fmt.Sprintf("*%d", a), i64(a), i64(a)})
		rangeCases = append(rangeCases, rangeCase{fmt.Sprintf("*%d..", a), i64(a), nil})
		rangeCases = append(rangeCases, rangeCase{fmt.Sprintf("*..%d", a), nil, i64(a)})
		for b := a; b <= 3; b++ {
			rangeCases = append(rangeCases, rangeCase{fmt.Sprintf("*%d..%d", a, b), i64(a), i64(b)})
		}
	}
	same := func(x, y *int64) bool { return (x == nil) == (y == nil) && (x == nil || *x == *y) }
	show := func(x *int64) string {
		if x == nil {
			return "unbounded"
		}
		return fmt.Sprint(*x)
	}
	for _, rc := range rangeCases {
		cases++
		q := fmt.Sprintf("match (a)-[r:T%s]->(b) return a", rc.text)
		m, err := frontend.ParseCypher(frontend.NewContext(), q)
		if err != nil {
			fail("range %q rejected: %v", rc.text, err)
			continue
		}
		r := firstRange(m)
		if r == nil {
			fail("range %q not modelled", rc.text)
			continue
		}
		if !same(r.StartIndex, rc.start) || !same(r.EndIndex, rc.end) {
			fail("range [%s] is modelled as (%s, %s), openCypher means (%s, %s)", rc.text, show(r.StartIndex), show(r.EndIndex), show(rc.start), show(rc.end))
		}
	}
	// constructs the model cannot represent must be rejected
	unsupported := map[string]string{
		"load csv":              "load csv from 'file:///x.csv' as row return row",
		"load csv with headers": "load csv with headers from 'file:///x.csv' as row match (n) where n.name = row.name return n",
		"union":                 "match (n) return n union match (m) return m",
		"foreach":               "match (n) foreach (x in [1] | set n.a = x)",
		"reduce":                "match (n) return reduce(s = 0, x in [1,2] | s + x)",
		"case":                  "match (n) return case when n.a = 1 then 1 else 2 end",
		"explain":               "explain match (n) return n",
		"profile":               "profile match (n) return n",
		"start":                 "start n = node(1) return n",
		"legacy parameter":      "match (n) where n.a = {p} return n",
		"create index":          "create index on :Person(name)",
		"existential subquery":  "match (n) where exists { match (n)-[]->(m) } return n",
		"standalone call":       "call db.labels()",
		"in-query call":         "match (n) call db.labels() yield label return n, label",
		"bulk import":           "using periodic commit 500 load csv from 'file:///x.csv' as row match (n) return n",
		"list index":            "match (n) return n.list[1]",
		"list slice":            "match (n) return n.list[1..2]",
		"list comprehension":    "match (n) return [x in n.list where x > 1 | x * 2]",
		"pattern comprehension": "match (n) return [(n)-->(m) | m.name]",
		"create unique":         "match (a), (b) create unique (a)-[:R]->(b)",
		"shortest path atom":    "match (a), (b) return shortestPath((a)-[*]->(b))",
	}
	for name, q := range unsupported {
		cases++
		func() {
			defer func() {
				if r := recover(); r != nil {
					fail("unsupported construct %q makes the parser panic: %q: %v", name, q, r)
				}
			}()
			if m, err := frontend.ParseCypher(frontend.NewContext(), q); err == nil {
				text, _ := format.RegularQuery(m, false)
				fail("unsupported construct %q accepted without error: %q is modelled as %q", name, q, text)
			}
		}()
	}
	res := map[string]any{"name": "parser", "bound": fmt.Sprintf("%d fixture queries, %d range literal forms, %d unsupported constructs", len(queries), len(rangeCases), len(unsupported)), "cases": cases, "exhaustive": false, "failures": failures}
	out, _ := json.Marshal(res)
	fmt.Println("BOUNDED-RESULT " + string(out))
	if len(failures) > 0 {
		t.Fail()
	}
}
