package ops

// Bounded stand-in for C17, sequential helpers part (labelled bounded, never counted as proved).
//
// ENUMERATED: ALL digraphs on n nodes (VERIF_BOUND "1": n=3 with self loops = 512 graphs; "2": n=4
// without self loops = 4096 graphs; "2s": n=4 with self loops = 65536 graphs) x every node as root x
// both directions (outbound / inbound) x the helpers TraversePaths (skip, limit in {0,1,2}),
// AcyclicTraverseTerminals and AcyclicTraverseNodes (nil filter; skip=limit=0 exactly, other skip/limit
// values only for the order-independent part). The graph is served by a minimal fake graph.Transaction:
// its RelationshipQuery evaluates the criteria handed over by the code under test (a conjunction of
// id(s)/id(e) IN [ids] comparisons) against the edge list and returns the matching relationships in
// ascending relationship id order with the start node (DirectionOutbound) or the end node
// (DirectionInbound), which is what the real drivers do for FetchDirection.
//
// ORACLE (naive recursive enumeration in this file, taken from the property statement): P = the set of
// maximal acyclic paths of length >= 1 from the root following the plan's direction (a path is acyclic
// when no node repeats; it is maximal when every neighbour of its last node is already on it).
//   TraversePaths(skip=0,limit=0) returns exactly P (as node-id sequences root..terminal, each once, every
//       edge of the path being the relationship joining the two nodes in the plan's direction);
//   TraversePaths(skip=s,limit=l) returns max(0,|P|-s) paths, cut to l when l>0, all distinct members of P;
//   AcyclicTraverseTerminals returns exactly the set of last nodes of the paths in P (with skip/limit: a
//       subset of it, at most l when l>0);
//   AcyclicTraverseNodes(nil filter) returns exactly the root plus every node on a path in P (with
//       skip/limit: a subset that contains the root).
// VERIF_SEED only permutes the order in which the graphs are visited.
//
// EXTENSION X17 (filters combined with skip/limit; everything above is unchanged). For every graph, root and
// direction of the enumeration above x EVERY subset A of the nodes as the accepted set x Skip, Limit in {0,1,2}:
//   AcyclicTraverseNodes(plan, nodeFilter = "node in A");
//   TraverseIntermediaryPaths(plan + DescentFilter "segment is not a cycle", nodeFilter = "node in A") on every
//       graph, and with a nil DescentFilter on the inputs whose subgraph reachable from the root is acyclic
//       (the helper has no cycle guard of its own, so elsewhere the walks are infinite and nothing is defined);
//   TraversePaths(plan + PathFilter "last node of the path in A").
// ORACLE (naive enumeration in this file, FILTERED FIRST and then skipped/limited, so that only items the
// filter accepts can consume skip/limit budget). clip(k) = max(0, k-skip), cut to limit when limit > 0.
//   AcyclicTraverseNodes: R = root plus every node reachable from it. Items of the traversal are the nodes of
//       R other than the root that are in A (the root is tested against the filter but is not a traversal
//       item: the existing check already requires it in every result). Result = (root if in A) plus
//       clip(|(R\{root}) n A|) distinct nodes of (R\{root}) n A; with skip=limit=0 exactly R n A.
//   TraverseIntermediaryPaths: S = all acyclic paths of length >= 1 from the root (every prefix of a longer
//       one included) whose last node is in A. With skip=limit=0 exactly S, each path once; otherwise clip(|S|)
//       distinct members of S. Every returned path must be well formed (edges join consecutive nodes).
//   TraversePaths: Pf = the maximal acyclic paths P whose last node is in A. With skip=limit=0 exactly Pf;
//       otherwise clip(|Pf|) distinct members of Pf.
//   ORDER: the traversal order of ops.Traversal is not documented (a stack, relationship order only requested
//       when skip/limit is set), therefore results are compared as SETS when skip=limit=0 and by CARDINALITY
//       plus MEMBERSHIP in the accepted set otherwise; which members survive skip/limit is not checked.
// Known deviation class "nodes-filter-revisit-budget" (AcyclicTraverseNodes with skip or limit set; predicate
// ovRevisit, the same structural predicate as "terminals-revisit": some reachable node is entered by two edges
// leaving reachable nodes, or the root is entered by one): a node reached a second time passes the filter
// again and consumes skip/limit budget again. Weaker checks kept on the class: subset of R n A, root present
// iff in A, at most limit nodes besides the root, and the exact result for skip=limit=0.

import (
	"encoding/json"
	"fmt"
	"math/rand"
	"os"
	"sort"
	"strconv"
	"strings"
	"testing"

	"github.com/specterops/dawgs/cypher/models/cypher"
	"github.com/specterops/dawgs/graph"
	"github.com/specterops/dawgs/query"
	"github.com/specterops/dawgs/util/size"
)

// ovKnownDeviations names the classes of inputs on which the UNCHANGED tree violates the oracle. A class is
// described structurally on the input (never by looking at what the code returned), recognised by the
// predicate given with it, and on its members the exact check is replaced by the weaker checks stated
// here; every input outside the classes is checked in full. Set VERIF_STRICT=1 to disable the list and
// see the deviations reported as failures.
//
// Class "terminals-revisit" (helper AcyclicTraverseTerminals only; predicate ovRevisit): the subgraph
// reachable from the root in the plan's direction is not an out-tree, i.e. some reachable node is entered
// by two edges leaving reachable nodes, or the root is entered by one. There the helper does not expand a
// node that it reaches for the second time (ExpansionFilter) and, having no descent filter, reports it as
// a terminal: nodes that close a cycle (root 0 with the self loop 0>0 yields {0}, oracle {}; edges 0>1 1>0
// from root 0 yield {0}, oracle {1}) and join nodes of a DAG (edges 0>1 0>2 1>2 2>3 from root 0 yield
// {2,3}, oracle {3}) are returned, and the last node of a maximal acyclic path is missed when it still has
// neighbours on the path. Weaker checks kept on the class: every returned node is reachable from the
// root; without skip/limit every reachable node other than the root that has no neighbour at all is
// returned; a limit l>0 is respected.
var ovKnownDeviations = ovKnownFromEnv()

// ovKnownFromEnv: the deviation classes come from /verif/known_findings.json through VERIF_KNOWN.
func ovKnownFromEnv() []string {
	var out []string
	for _, p := range strings.Split(os.Getenv("VERIF_KNOWN"), "|") {
		if p = strings.TrimSpace(p); p == "terminals-revisit" || p == "nodes-filter-revisit-budget" {
			out = append(out, p)
		}
	}
	return out
}

type ovEdge struct {
	id   graph.ID
	s, e int
}

type ovGraph struct {
	n     int
	edges []ovEdge
	nodes []*graph.Node
	desc  string
}

func ovNodeID(i int) graph.ID { return graph.ID(10 + 7*i) }

func ovIndex(id graph.ID) int { return (int(id) - 10) / 7 }

type ovCursor struct {
	c chan graph.DirectionalResult
}

func (s ovCursor) Error() error                       { return nil }
func (s ovCursor) Close()                             {}
func (s ovCursor) Chan() chan graph.DirectionalResult { return s.c }

type ovTx struct {
	graph.Transaction
	g       *ovGraph
	evalErr *string
}

func (s ovTx) Relationships() graph.RelationshipQuery {
	return &ovQuery{g: s.g, evalErr: s.evalErr}
}
func (s ovTx) GraphQueryMemoryLimit() size.Size { return 0 }

type ovQuery struct {
	graph.RelationshipQuery
	g        *ovGraph
	criteria graph.CriteriaProvider
	evalErr  *string
}

func (s *ovQuery) Filter(criteria graph.Criteria) graph.RelationshipQuery {
	s.criteria = func() graph.Criteria { return criteria }
	return s
}

func (s *ovQuery) Filterf(provider graph.CriteriaProvider) graph.RelationshipQuery {
	s.criteria = provider
	return s
}

func (s *ovQuery) OrderBy(criteria ...graph.Criteria) graph.RelationshipQuery { return s }

// ovMatch evaluates the supported criteria fragment against one edge.
func ovMatch(expr any, e ovEdge) (bool, error) {
	switch typed := expr.(type) {
	case *cypher.Conjunction:
		for _, sub := range typed.Expressions {
			if ok, err := ovMatch(sub, e); err != nil || !ok {
				return false, err
			}
		}
		return true, nil
	case *cypher.Parenthetical:
		return ovMatch(typed.Expression, e)
	case *cypher.Comparison:
		fn, isFn := typed.Left.(*cypher.FunctionInvocation)
		if !isFn || fn.Name != "id" || len(fn.Arguments) != 1 || len(typed.Partials) != 1 {
			return false, fmt.Errorf("unsupported comparison %#v", typed)
		}
		variable, isVar := fn.Arguments[0].(*cypher.Variable)
		if !isVar {
			return false, fmt.Errorf("unsupported id() argument %#v", fn.Arguments[0])
		}
		var subject graph.ID
		switch variable.Symbol {
		case query.EdgeStartSymbol:
			subject = ovNodeID(e.s)
		case query.EdgeEndSymbol:
			subject = ovNodeID(e.e)
		default:
			return false, fmt.Errorf("unsupported variable %q", variable.Symbol)
		}
		partial := typed.Partials[0]
		param, isParam := partial.Right.(*cypher.Parameter)
		if !isParam {
			return false, fmt.Errorf("unsupported right operand %#v", partial.Right)
		}
		switch partial.Operator {
		case cypher.OperatorIn:
			ids, isIDs := param.Value.([]graph.ID)
			if !isIDs {
				return false, fmt.Errorf("unsupported IN operand %#v", param.Value)
			}
			for _, id := range ids {
				if id == subject {
					return true, nil
				}
			}
			return false, nil
		case cypher.OperatorEquals:
			id, isID := param.Value.(graph.ID)
			if !isID {
				return false, fmt.Errorf("unsupported = operand %#v", param.Value)
			}
			return id == subject, nil
		}
		return false, fmt.Errorf("unsupported operator %v", partial.Operator)
	}
	return false, fmt.Errorf("unsupported criteria %T", expr)
}

func (s *ovQuery) FetchDirection(direction graph.Direction, delegate func(cursor graph.Cursor[graph.DirectionalResult]) error) error {
	var criteria any
	if s.criteria != nil {
		criteria = s.criteria()
	}
	c := make(chan graph.DirectionalResult, len(s.g.edges))
	for _, e := range s.g.edges { // ascending relationship id
		if criteria != nil {
			ok, err := ovMatch(criteria, e)
			if err != nil {
				*s.evalErr = err.Error()
				return err
			}
			if !ok {
				continue
			}
		}
		rel := graph.NewRelationship(e.id, ovNodeID(e.s), ovNodeID(e.e), nil, graph.StringKind("e"))
		switch direction {
		case graph.DirectionOutbound:
			c <- graph.NewDirectionalResult(direction, rel, s.g.nodes[e.s])
		case graph.DirectionInbound:
			c <- graph.NewDirectionalResult(direction, rel, s.g.nodes[e.e])
		default:
			return fmt.Errorf("bad direction %d", direction)
		}
	}
	close(c)
	return delegate(ovCursor{c: c})
}

func ovKey(path []int) string {
	parts := make([]string, len(path))
	for i, p := range path {
		parts[i] = strconv.Itoa(p)
	}
	return strings.Join(parts, ">")
}

// ovNeighbours: nodes one step away from u in the plan's direction
func ovNeighbours(g *ovGraph, u int, d graph.Direction) []int {
	var out []int
	for _, e := range g.edges {
		if d == graph.DirectionOutbound && e.s == u {
			out = append(out, e.e)
		}
		if d == graph.DirectionInbound && e.e == u {
			out = append(out, e.s)
		}
	}
	return out
}

// ovMaximalPaths is the oracle.
func ovMaximalPaths(g *ovGraph, root int, d graph.Direction) map[string][]int {
	out := map[string][]int{}
	var rec func(path []int)
	rec = func(path []int) {
		extended := false
		for _, v := range ovNeighbours(g, path[len(path)-1], d) {
			onPath := false
			for _, p := range path {
				if p == v {
					onPath = true
				}
			}
			if !onPath {
				extended = true
				rec(append(append([]int{}, path...), v))
			}
		}
		if !extended && len(path) > 1 {
			out[ovKey(path)] = path
		}
	}
	rec([]int{root})
	return out
}

func ovSortedKeys[V any](m map[string]V) []string {
	out := []string{}
	for k := range m {
		out = append(out, k)
	}
	sort.Strings(out)
	return out
}

func ovNodeSetKeys(s graph.NodeSet) map[string]bool {
	out := map[string]bool{}
	for id := range s {
		out[strconv.Itoa(ovIndex(id))] = true
	}
	return out
}

func ovSetEq(a, b map[string]bool) bool {
	if len(a) != len(b) {
		return false
	}
	for k := range a {
		if !b[k] {
			return false
		}
	}
	return true
}

func ovSubset(a, b map[string]bool) bool {
	for k := range a {
		if !b[k] {
			return false
		}
	}
	return true
}

// ovRevisit is the predicate of the known deviation class "terminals-revisit"; it also returns the
// reachable set and the reachable sinks other than the root.
func ovRevisit(g *ovGraph, root int, d graph.Direction) (bool, map[string]bool, map[string]bool) {
	reach := map[int]bool{root: true}
	work := []int{root}
	for len(work) > 0 {
		u := work[0]
		work = work[1:]
		for _, v := range ovNeighbours(g, u, d) {
			if !reach[v] {
				reach[v] = true
				work = append(work, v)
			}
		}
	}
	arrivals := map[int]int{root: 1}
	reachable, sinks := map[string]bool{}, map[string]bool{}
	for u := range reach {
		reachable[strconv.Itoa(u)] = true
		next := ovNeighbours(g, u, d)
		if len(next) == 0 && u != root {
			sinks[strconv.Itoa(u)] = true
		}
		for _, v := range next {
			arrivals[v]++
		}
	}
	for _, c := range arrivals {
		if c > 1 {
			return true, reachable, sinks
		}
	}
	return false, reachable, sinks
}

// ovSimplePaths: every acyclic path of length >= 1 from the root in the plan's direction (not only the maximal ones).
func ovSimplePaths(g *ovGraph, root int, d graph.Direction) map[string][]int {
	out := map[string][]int{}
	var rec func(path []int)
	rec = func(path []int) {
		if len(path) > 1 {
			out[ovKey(path)] = path
		}
		for _, v := range ovNeighbours(g, path[len(path)-1], d) {
			onPath := false
			for _, p := range path {
				if p == v {
					onPath = true
				}
			}
			if !onPath {
				rec(append(append([]int{}, path...), v))
			}
		}
	}
	rec([]int{root})
	return out
}

// ovReachableAcyclic: no walk from the root in the plan's direction ever repeats a node.
func ovReachableAcyclic(g *ovGraph, root int, d graph.Direction) bool {
	state := map[int]int{} // 1: on the stack, 2: finished
	var rec func(u int) bool
	rec = func(u int) bool {
		state[u] = 1
		for _, v := range ovNeighbours(g, u, d) {
			if state[v] == 1 || (state[v] == 0 && !rec(v)) {
				return false
			}
		}
		state[u] = 2
		return true
	}
	return rec(root)
}

func ovClip(k, skip, limit int) int {
	k -= skip
	if k < 0 {
		k = 0
	}
	if limit > 0 && k > limit {
		k = limit
	}
	return k
}

// ovPathKeys renders the returned paths as index keys and reports malformed paths (edges that do not join
// the consecutive nodes in the plan's direction) and duplicates.
func ovPathKeys(paths graph.PathSet, dir graph.Direction) (map[string]int, string) {
	keys, problem := map[string]int{}, ""
	for _, p := range paths {
		var idx []int
		for _, node := range p.Nodes {
			idx = append(idx, ovIndex(node.ID))
		}
		key := ovKey(idx)
		keys[key]++
		wellFormed := len(p.Edges) == len(p.Nodes)-1
		for i := 0; wellFormed && i < len(p.Edges); i++ {
			a, b := p.Nodes[i].ID, p.Nodes[i+1].ID
			if dir == graph.DirectionInbound {
				a, b = b, a
			}
			wellFormed = p.Edges[i] != nil && p.Edges[i].StartID == a && p.Edges[i].EndID == b
		}
		if !wellFormed {
			problem = fmt.Sprintf("path %s has edges that do not join its consecutive nodes in the plan's direction", key)
		}
		if keys[key] == 2 {
			problem = fmt.Sprintf("path %s returned more than once", key)
		}
	}
	return keys, problem
}

func TestVerifBoundedOpsTraversal(t *testing.T) {
	n, selfLoops := 3, true
	switch os.Getenv("VERIF_BOUND") {
	case "2":
		n, selfLoops = 4, false
	case "2s":
		n, selfLoops = 4, true
	}
	seed, _ := strconv.ParseInt(os.Getenv("VERIF_SEED"), 10, 64)
	var pairs [][2]int
	for a := 0; a < n; a++ {
		for b := 0; b < n; b++ {
			if a != b || selfLoops {
				pairs = append(pairs, [2]int{a, b})
			}
		}
	}
	total := 1 << uint(len(pairs))
	order := rand.New(rand.NewSource(seed)).Perm(total)
	dirName := map[graph.Direction]string{graph.DirectionOutbound: "outbound", graph.DirectionInbound: "inbound"}

	cases, failed, deviations := 0, 0, 0
	failures := []string{}
	deviationExamples, deviationEdges := []string{}, []int{}
	knownClass := map[string]bool{}
	for _, c := range ovKnownDeviations {
		knownClass[c] = os.Getenv("VERIF_STRICT") == ""
	}
	useKnownDeviations := knownClass["terminals-revisit"]
	xHits, xExamples, xCases := map[string]int{}, map[string][]string{}, map[string]int{}
	failedBy := map[string]int{}
	fail := func(format string, args ...any) {
		failed++
		failedBy[strings.SplitN(fmt.Sprintf(format, args...), " ", 2)[0]]++
		if len(failures) < 5 {
			failures = append(failures, fmt.Sprintf(format, args...))
		}
	}
	for _, mask := range order {
		g := &ovGraph{n: n}
		var sb strings.Builder
		for i, p := range pairs {
			if mask&(1<<uint(i)) != 0 {
				g.edges = append(g.edges, ovEdge{id: graph.ID(100 + i), s: p[0], e: p[1]})
				fmt.Fprintf(&sb, "%d>%d ", p[0], p[1])
			}
		}
		for i := 0; i < n; i++ {
			g.nodes = append(g.nodes, graph.NewNode(ovNodeID(i), nil, graph.StringKind("n")))
		}
		g.desc = fmt.Sprintf("n=%d edges=[%s]", n, strings.TrimSpace(sb.String()))
		for root := 0; root < n; root++ {
			for _, dir := range []graph.Direction{graph.DirectionOutbound, graph.DirectionInbound} {
				where := fmt.Sprintf("%s root=%d dir=%s", g.desc, root, dirName[dir])
				want := ovMaximalPaths(g, root, dir)
				wantTerminals, wantNodes := map[string]bool{}, map[string]bool{strconv.Itoa(root): true}
				for _, p := range want {
					wantTerminals[strconv.Itoa(p[len(p)-1])] = true
					for _, v := range p {
						wantNodes[strconv.Itoa(v)] = true
					}
				}
				call := func(name string, f func(tx graph.Transaction, plan TraversalPlan) error, skip, limit int) bool {
					cases++
					evalErr := ""
					var err error
					func() {
						defer func() {
							if p := recover(); p != nil {
								err = fmt.Errorf("panic: %v", p)
							}
						}()
						err = f(ovTx{g: g, evalErr: &evalErr}, TraversalPlan{Root: g.nodes[root], Direction: dir, Skip: skip, Limit: limit})
					}()
					if evalErr != "" {
						fail("%s %s skip=%d limit=%d: harness cannot evaluate the criteria: %s", name, where, skip, limit, evalErr)
						return false
					}
					if err != nil {
						fail("%s %s skip=%d limit=%d: returned error %q, want nil", name, where, skip, limit, err)
						return false
					}
					return true
				}
				// TraversePaths
				for skip := 0; skip <= 2; skip++ {
					for limit := 0; limit <= 2; limit++ {
						var got graph.PathSet
						if !call("TraversePaths", func(tx graph.Transaction, plan TraversalPlan) error {
							var err error
							got, err = TraversePaths(tx, plan)
							return err
						}, skip, limit) {
							continue
						}
						gotKeys := map[string]int{}
						for _, p := range got {
							var idx []int
							for _, node := range p.Nodes {
								idx = append(idx, ovIndex(node.ID))
							}
							key := ovKey(idx)
							gotKeys[key]++
							wellFormed := len(p.Edges) == len(p.Nodes)-1
							for i := 0; wellFormed && i < len(p.Edges); i++ {
								a, b := p.Nodes[i].ID, p.Nodes[i+1].ID
								if dir == graph.DirectionInbound {
									a, b = b, a
								}
								wellFormed = p.Edges[i] != nil && p.Edges[i].StartID == a && p.Edges[i].EndID == b
							}
							if !wellFormed {
								fail("TraversePaths %s skip=%d limit=%d: path %s has edges that do not join its consecutive nodes in the plan's direction", where, skip, limit, key)
							}
							if _, member := want[key]; !member {
								fail("TraversePaths %s skip=%d limit=%d: returned %s which is not a maximal acyclic path; expected set %v", where, skip, limit, key, ovSortedKeys(want))
							}
							if gotKeys[key] == 2 {
								fail("TraversePaths %s skip=%d limit=%d: path %s returned more than once", where, skip, limit, key)
							}
						}
						wantCount := len(want) - skip
						if wantCount < 0 {
							wantCount = 0
						}
						if limit > 0 && wantCount > limit {
							wantCount = limit
						}
						if len(got) != wantCount {
							fail("TraversePaths %s skip=%d limit=%d: returned %d paths %v, want %d of %v", where, skip, limit, len(got), ovSortedKeys(gotKeys), wantCount, ovSortedKeys(want))
						}
					}
				}
				// AcyclicTraverseTerminals / AcyclicTraverseNodes
				for _, sl := range [][2]int{{0, 0}, {1, 0}, {0, 1}, {1, 1}, {0, 2}} {
					skip, limit := sl[0], sl[1]
					var terminals, nodes graph.NodeSet
					if call("AcyclicTraverseTerminals", func(tx graph.Transaction, plan TraversalPlan) error {
						var err error
						terminals, err = AcyclicTraverseTerminals(tx, plan)
						return err
					}, skip, limit) {
						got := ovNodeSetKeys(terminals)
						exact := skip == 0 && limit == 0
						agrees := ovSubset(got, wantTerminals) && (!exact || ovSetEq(got, wantTerminals)) && (limit == 0 || len(got) <= limit)
						msg := fmt.Sprintf("AcyclicTraverseTerminals %s skip=%d limit=%d: returned nodes %v, want %s %v (last nodes of the maximal acyclic paths %v)", where, skip, limit, ovSortedKeys(got), map[bool]string{true: "exactly", false: "a subset of"}[exact], ovSortedKeys(wantTerminals), ovSortedKeys(want))
						if inClass, reachable, sinks := ovRevisit(g, root, dir); inClass && useKnownDeviations {
							if !agrees {
								deviations++
								if exact && (len(deviationExamples) < 3 || len(g.edges) < deviationEdges[2]) {
									deviationExamples = append(deviationExamples, msg)
									deviationEdges = append(deviationEdges, len(g.edges))
									// keep the three examples with the fewest edges
									for i := len(deviationEdges) - 1; i > 0 && deviationEdges[i] < deviationEdges[i-1]; i-- {
										deviationEdges[i], deviationEdges[i-1] = deviationEdges[i-1], deviationEdges[i]
										deviationExamples[i], deviationExamples[i-1] = deviationExamples[i-1], deviationExamples[i]
									}
									if len(deviationExamples) > 3 {
										deviationExamples, deviationEdges = deviationExamples[:3], deviationEdges[:3]
									}
								}
							}
							if !ovSubset(got, reachable) || (exact && !ovSubset(sinks, got)) || (limit > 0 && len(got) > limit) {
								fail("AcyclicTraverseTerminals %s skip=%d limit=%d (known deviation class, weak check): returned %v, reachable %v, reachable sinks %v", where, skip, limit, ovSortedKeys(got), ovSortedKeys(reachable), ovSortedKeys(sinks))
							}
						} else if !agrees {
							fail("%s", msg)
						}
					}
					if call("AcyclicTraverseNodes", func(tx graph.Transaction, plan TraversalPlan) error {
						var err error
						nodes, err = AcyclicTraverseNodes(tx, plan, nil)
						return err
					}, skip, limit) {
						got := ovNodeSetKeys(nodes)
						exact := skip == 0 && limit == 0
						if (exact && !ovSetEq(got, wantNodes)) || !ovSubset(got, wantNodes) || !got[strconv.Itoa(root)] {
							fail("AcyclicTraverseNodes %s skip=%d limit=%d: returned nodes %v, want %s %v containing the root", where, skip, limit, ovSortedKeys(got), map[bool]string{true: "exactly", false: "a subset of"}[exact], ovSortedKeys(wantNodes))
						}
					}
				}

				// ---- X17: node / path filters combined with skip and limit
				{
					revisit, reachable, _ := ovRevisit(g, root, dir)
					simple := ovSimplePaths(g, root, dir)
					acyclicReach := ovReachableAcyclic(g, root, dir)
					rootKey := strconv.Itoa(root)
					for accept := 0; accept < 1<<uint(n); accept++ {
						inA := func(i int) bool { return accept&(1<<uint(i)) != 0 }
						var aList []int
						for i := 0; i < n; i++ {
							if inA(i) {
								aList = append(aList, i)
							}
						}
						nodeFilter := func(node *graph.Node) bool { return inA(ovIndex(node.ID)) }
						// accepted items of the three naive enumerations
						accNodes := map[string]bool{} // (R \ {root}) n A
						for k := range reachable {
							if i, _ := strconv.Atoi(k); i != root && inA(i) {
								accNodes[k] = true
							}
						}
						accInter, accMax := map[string]bool{}, map[string]bool{}
						for k, p := range simple {
							if inA(p[len(p)-1]) {
								accInter[k] = true
							}
						}
						for k, p := range want {
							if inA(p[len(p)-1]) {
								accMax[k] = true
							}
						}
						// TraversePaths with a PRUNING descent filter: a candidate whose node is not in A is rejected AND detached
						// from the path tree by the filter (the documented way to give a branch up). Oracle: the maximal
						// acyclic paths of the subgraph induced by A + {root}. Rejecting a candidate must not make the traversal
						// lose or repeat one of its siblings.
						{
							whereX := fmt.Sprintf("%s accepted nodes A=%v", where, aList)
							induced := &ovGraph{n: g.n, nodes: g.nodes, desc: g.desc}
							for _, e := range g.edges {
								if (e.s == root || inA(e.s)) && (e.e == root || inA(e.e)) {
									induced.edges = append(induced.edges, e)
								}
							}
							wantPruned := ovMaximalPaths(induced, root, dir)
							var pruned graph.PathSet
							if call("TraversePaths+pruning filter", func(tx graph.Transaction, plan TraversalPlan) error {
								plan.DescentFilter = func(ctx *TraversalContext, segment *graph.PathSegment) bool {
									if i := ovIndex(segment.Node.ID); i != root && !inA(i) {
										segment.Detach()
										return false
									}
									return true
								}
								var err error
								pruned, err = TraversePaths(tx, plan)
								return err
							}, 0, 0) {
								xCases["TraversePaths+pruning filter"]++
								keys, problem := ovPathKeys(pruned, dir)
								gotSet := map[string]bool{}
								for k := range keys {
									gotSet[k] = true
								}
								wantSet := map[string]bool{}
								for k := range wantPruned {
									wantSet[k] = true
								}
								if problem != "" || len(pruned) != len(wantSet) || !ovSubset(gotSet, wantSet) || !ovSubset(wantSet, gotSet) {
									fail("TraversePaths+pruning filter %s: returned %d paths %v %s; want exactly %v (maximal acyclic paths of the subgraph induced by A and the root; rejected candidates are detached by the filter)", whereX, len(pruned), ovSortedKeys(keys), problem, ovSortedKeys(wantSet))
								}
							}
						}
						for skip := 0; skip <= 2; skip++ {
							for limit := 0; limit <= 2; limit++ {
								exact := skip == 0 && limit == 0
								whereX := fmt.Sprintf("%s accepted nodes A=%v", where, aList)
								// AcyclicTraverseNodes + node filter
								var nodes graph.NodeSet
								if call("AcyclicTraverseNodes+filter", func(tx graph.Transaction, plan TraversalPlan) error {
									var err error
									nodes, err = AcyclicTraverseNodes(tx, plan, nodeFilter)
									return err
								}, skip, limit) {
									xCases["AcyclicTraverseNodes+filter"]++
									got := ovNodeSetKeys(nodes)
									others := 0
									for k := range got {
										if k != rootKey {
											others++
										}
									}
									wantOthers := ovClip(len(accNodes), skip, limit)
									wantAll := map[string]bool{}
									for k := range accNodes {
										wantAll[k] = true
									}
									if inA(root) {
										wantAll[rootKey] = true
									}
									ok := ovSubset(got, wantAll) && got[rootKey] == inA(root) && others == wantOthers
									msg := fmt.Sprintf("AcyclicTraverseNodes+filter %s skip=%d limit=%d: returned nodes %v, want the root %d iff it is in A plus %d of the accepted reachable nodes %v (naive enumeration: nodes reachable from the root %v, without the root, filtered by A, then skip/limit)", whereX, skip, limit, ovSortedKeys(got), root, wantOthers, ovSortedKeys(accNodes), ovSortedKeys(reachable))
									if revisit && !exact && knownClass["nodes-filter-revisit-budget"] {
										if !ok {
											xHits["nodes-filter-revisit-budget"]++
											if len(xExamples["nodes-filter-revisit-budget"]) < 3 && len(g.edges) <= 3 {
												xExamples["nodes-filter-revisit-budget"] = append(xExamples["nodes-filter-revisit-budget"], msg)
											}
										}
										if !ovSubset(got, wantAll) || got[rootKey] != inA(root) || (limit > 0 && others > limit) {
											fail("AcyclicTraverseNodes+filter %s skip=%d limit=%d (known deviation class, weak check): returned %v, accepted reachable nodes %v", whereX, skip, limit, ovSortedKeys(got), ovSortedKeys(wantAll))
										}
									} else if !ok {
										fail("%s", msg)
									}
								}
								// TraverseIntermediaryPaths + node filter (caller's descent filter rejects cycles; nil where no cycle is reachable)
								for _, guard := range []bool{true, false} {
									if !guard && !acyclicReach {
										continue
									}
									name := "TraverseIntermediaryPaths+filter"
									if !guard {
										name = "TraverseIntermediaryPaths+filter(nil DescentFilter)"
									}
									var paths graph.PathSet
									if call(name, func(tx graph.Transaction, plan TraversalPlan) error {
										if guard {
											plan.DescentFilter = func(ctx *TraversalContext, segment *graph.PathSegment) bool { return !segment.IsCycle() }
										}
										var err error
										paths, err = TraverseIntermediaryPaths(tx, plan, nodeFilter)
										return err
									}, skip, limit) {
										xCases["TraverseIntermediaryPaths+filter"]++
										keys, problem := ovPathKeys(paths, dir)
										gotSet := map[string]bool{}
										for k := range keys {
											gotSet[k] = true
										}
										wantCount := ovClip(len(accInter), skip, limit)
										if problem != "" || !ovSubset(gotSet, accInter) || len(paths) != wantCount {
											fail("%s %s skip=%d limit=%d: returned %d paths %v %s; want %d distinct paths out of %v (all acyclic paths from the root that end in A, then skip/limit)", name, whereX, skip, limit, len(paths), ovSortedKeys(keys), problem, wantCount, ovSortedKeys(accInter))
										}
									}
								}
								// TraversePaths + path filter
								var paths graph.PathSet
								if call("TraversePaths+filter", func(tx graph.Transaction, plan TraversalPlan) error {
									plan.PathFilter = func(ctx *TraversalContext, segment *graph.PathSegment) bool { return nodeFilter(segment.Node) }
									var err error
									paths, err = TraversePaths(tx, plan)
									return err
								}, skip, limit) {
									xCases["TraversePaths+filter"]++
									keys, problem := ovPathKeys(paths, dir)
									gotSet := map[string]bool{}
									for k := range keys {
										gotSet[k] = true
									}
									wantCount := ovClip(len(accMax), skip, limit)
									if problem != "" || !ovSubset(gotSet, accMax) || len(paths) != wantCount {
										fail("TraversePaths+filter %s skip=%d limit=%d: returned %d paths %v %s; want %d distinct paths out of %v (maximal acyclic paths %v whose last node is in A, then skip/limit)", whereX, skip, limit, len(paths), ovSortedKeys(keys), problem, wantCount, ovSortedKeys(accMax), ovSortedKeys(want))
									}
								}
							}
						}
					}
				}
			}
		}
	}
	xHits["terminals-revisit"] = deviations
	res := map[string]any{
		"name":                    "ops-traversal",
		"bound":                   fmt.Sprintf("all digraphs on %d nodes (self loops: %v) x every root x {outbound,inbound} x TraversePaths (skip,limit in 0..2), AcyclicTraverseTerminals, AcyclicTraverseNodes (skip/limit in {00,10,01,11,02}); X17: x every node subset A x skip,limit in 0..2 x AcyclicTraverseNodes(nodeFilter A), TraverseIntermediaryPaths(nodeFilter A; acyclic DescentFilter, and nil DescentFilter where no cycle is reachable), TraversePaths(PathFilter: last node in A)", n, selfLoops),
		"graphs":                  total,
		"cases":                   cases,
		"failed":                  failed,
		"failed_by_helper":        failedBy,
		"known_deviations":        deviations,
		"known_deviation_hits":    xHits,
		"known_deviation_classes": ovKnownDeviations,
		"deviation_examples":      deviationExamples,
		"deviation_examples_x17":  xExamples,
		"cases_by_extension":      xCases,
		"exhaustive":              true,
		"failures":                failures,
	}
	out, _ := json.Marshal(res)
	fmt.Println("BOUNDED-RESULT " + string(out))
	if failed > 0 {
		t.Fail()
	}
}
