#!/bin/sh
# Must-fail corpus: apply each deliberate property-breaking patch to a scratch worktree of /repo (outside
# /repo and /verif, removed afterwards) and require that the check of that property reports a violation.
# usage: selftest/run.sh <property> [patch-name]   (WITH_TESTS=1 also runs the package tests on the mutant)
cd "$(dirname "$0")/.."
export PATH=/opt/veriftools/go1.26.8/bin:$PATH GOFLAGS=-mod=mod GOPROXY=off GOSUMDB=off GOTOOLCHAIN=local CGO_ENABLED=0
id="$1"; only="$2"
fail=0
for p in selftest/$id/*.patch /verif/seeded/*/patch.diff; do
  [ -f "$p" ] || continue
  case "$p" in /verif/seeded/*) grep -q "\"property\": *\"$id\"" "$(dirname $p)/meta.json" 2>/dev/null || continue;; esac
  name=$(basename "$p" .patch); [ "$name" = patch.diff ] && name=seeded-$(basename $(dirname $p))
  [ -n "$only" ] && [ "$only" != "$name" ] && continue
  d=$(mktemp -d /tmp/selftest.XXXXXX)
  git -C /repo worktree add -q --detach "$d/r" HEAD >/dev/null 2>&1 || { echo "worktree failed"; exit 2; }
  if ! git -C "$d/r" apply "$(realpath $p)" 2>/dev/null; then echo "SKIP $name (patch does not apply)"; fail=1; else
    if [ -n "$WITH_TESTS" ]; then
      pk=$(git -C "$d/r" diff --name-only | xargs -n1 dirname | sort -u | sed 's|^|./|')
      (cd "$d/r" && go test -vet=off -count=1 -timeout 120s $pk >/dev/null 2>&1) && t="tests-pass" || t="TESTS-FAIL"
    fi
    out=$(VERIF_DIR=/verif bin/govc check -property "$id" -tier quick -repo "$d/r" -no-evidence -failfast 2>&1); rc=$?
    n=$(echo "$out" | grep -c '^VIOLATION')
    if [ $rc -eq 1 ] && [ $n -gt 0 ]; then echo "DETECTED $name ($n) $t: $(echo "$out" | grep '^FAILED' | head -3 | cut -c8-110 | tr '\n' ';')"; else echo "MISSED   $name rc=$rc $t"; fail=1; fi
  fi
  git -C /repo worktree remove --force "$d/r" >/dev/null 2>&1; rm -rf "$d"
done
exit $fail
