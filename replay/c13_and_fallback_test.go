package cardinality

import "testing"

// Replay of the failed obligations cardinality.bitmap64.And#frame.iter@iter0 / #post.0 (and AndNot):
// And/AndNot with a non-native Duplex operand must give the set intersection / difference.
func TestVerifReplayAndFallback(t *testing.T) {
	recv := NewBitmap64With(1, 2, 3, 4, 5, 6)
	recv.And(ThreadSafeDuplex(NewBitmap64())) // intersection with the empty set
	if got := recv.Slice(); len(got) != 0 {
		t.Fatalf("VERIF-REPLAY confirmed: {1..6}.And(threadSafe({})) = %v, want []", got)
	}
	recv = NewBitmap64With(1, 2, 3, 4, 5, 6)
	recv.AndNot(ThreadSafeDuplex(NewBitmap64With(1, 2, 3, 4, 5, 6)))
	if got := recv.Slice(); len(got) != 0 {
		t.Fatalf("VERIF-REPLAY confirmed: {1..6}.AndNot(threadSafe({1..6})) = %v, want []", got)
	}
	r32 := NewBitmap32With(1, 2, 3, 4, 5, 6)
	r32.And(ThreadSafeDuplex(NewBitmap32()))
	if got := r32.Slice(); len(got) != 0 {
		t.Fatalf("VERIF-REPLAY confirmed: 32-bit {1..6}.And(threadSafe({})) = %v, want []", got)
	}
}
