package cypher

import (
	"errors"
	"testing"
)

// Replay of the failed obligation cypher.SinglePartQuery.copy#post.errorContext_errors (also Create,
// FunctionInvocation, UpdatingClause): the copy shares the backing array of the errors slice.
func TestVerifReplayErrorsAlias(t *testing.T) {
	orig := &SinglePartQuery{}
	orig.errors = make([]error, 1, 4) // spare capacity, as append leaves behind
	orig.errors[0] = errors.New("first")
	cp := Copy(orig)
	cp.AddError(errors.New("added to the copy"))
	orig.AddError(errors.New("added to the original"))
	if got := cp.errors[1].Error(); got != "added to the copy" {
		t.Fatalf("VERIF-REPLAY confirmed: a later change to the original is visible in the copy: copy.errors[1] = %q", got)
	}
}
