#!/bin/sh
# Build the verifier from files on disk only (offline).
set -e
cd "$(dirname "$0")"
export PATH=/opt/veriftools/go1.26.8/bin:$PATH GOFLAGS=-mod=mod GOPROXY=off GOSUMDB=off GOTOOLCHAIN=local CGO_ENABLED=0
mkdir -p bin
(cd engine && go build -o ../bin/govc ./cmd/govc)
echo "govc built"
